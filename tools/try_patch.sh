#!/bin/bash
# tools/try_patch.sh <patch.diff> <ID> [<ID>...]   apply a seeded change to /repo, run the quick checks, revert.
# Prints one line per check: <ID> exit=<code> ; the patch is always reverted.
patch="$1"; shift
cd /repo || exit 2
if ! git diff --quiet; then echo "/repo has uncommitted changes"; exit 2; fi
if ! git apply --check "$patch" 2>/dev/null; then echo "patch does not apply: $patch"; exit 3; fi
git apply "$patch"
trap 'git -C /repo checkout -- . ; git -C /repo clean -fdq -- zeep-lib/tests 2>/dev/null' EXIT
cd /verif
for id in "$@"; do
  out=$(VERIF_SEED=${VERIF_SEED:-0} ./check "$id" ${TIER:-quick} 2>&1); code=$?
  echo "$id exit=$code $(echo "$out" | grep -m1 -A1 VIOLATION | tr '\n' ' ' | cut -c1-220)"
  if [ -n "${VERBOSE:-}" ]; then echo "$out" | tail -20; fi
done
