#!/usr/bin/env python3
"""Prints the prompt given to a fresh sub-agent that must seed a property-breaking change.
usage: agent_prompt.py <PROPERTY_ID> <worktree> [n_changes]"""
import json, sys
pid, wt = sys.argv[1], sys.argv[2]
n = int(sys.argv[3]) if len(sys.argv) > 3 else 3
prop = None
for l in open('/verif/properties.jsonl'):
    p = json.loads(l)
    if p['id'] == pid:
        prop = p
print(f"""You are helping to evaluate a test suite's blind spots. The project is mibes404/zeep: a small Rust CLI (`zeep`) and library (`zeep-lib`) that reads XSD/WSDL files and generates yaserde-annotated Rust structs plus async SOAP client code. A git worktree of the repository is at {wt} — work ONLY inside that directory (do not touch /repo or /verif, do not read /verif). The sandbox has no network: always pass `--offline` to cargo and set `CARGO_TARGET_DIR={wt}/target` so that build output stays inside the worktree.

Here is a semantic property that the project is supposed to satisfy:

  Title: {prop['title']}
  Statement: {prop['statement']}
  Quantified over: {prop['quantifier']['text']}

Your job: produce {n} DIFFERENT source changes (each independent, each applied on its own to a clean tree) to the project's own source (under zeep-lib/src or zeep/src — not tests, not examples, not resources) such that each one:
  1. BREAKS the property above (a user relying on the property would be harmed),
  2. still compiles, and the existing test suite still passes unchanged: `cd {wt} && CARGO_TARGET_DIR={wt}/target cargo test --workspace --offline` must report the same 32 passing tests,
  3. is REALISTIC — the kind of slip a maintainer could make in a refactor or 'optimisation' (an off-by-one, a dropped branch, a changed container, a reordered step, a too-narrow type, a condition that is right for common inputs only), not sabotage with magic constants,
  4. needs something SPECIFIC to manifest: an unusual input, a particular combination, a multi-step sequence, a fault at a particular point, or two cooperating sites that each look fine alone — NOT something that any ordinary use would expose at once. Prefer subtle over blatant; the {n} changes should use different mechanisms / different code sites.

For each change i (1..{n}) create a directory {wt}/seeded/{pid}-<short-slug>/ containing:
  - patch.diff : the output of `git diff` for that change alone (relative to the worktree's HEAD), applicable with `git apply` to a clean tree,
  - a demonstration: either a Rust test file / small Rust program / shell script (demo.sh) with instructions in a short README.md, which FAILS (non-zero exit or failing assertion) when the change is applied and PASSES on the clean tree. The demonstration may be a new `#[cfg(test)]` test placed in a new file or an integration test under zeep-lib/tests/ (say where to put it), or a small cargo example; it must run offline.
  - meta.json : {{"property": "{pid}", "slug": "...", "what_changed": "...", "needs_to_manifest": "...", "files_touched": [...], "commands_run": [...], "demo_fails_with_change": true, "demo_passes_without": true, "tests_32_pass_with_change": true}}

Verify all of this yourself by actually running the commands (apply change -> run the 32 tests -> run the demo -> `git checkout -- .` / `git stash` -> run the demo again on the clean tree). Leave the worktree CLEAN at the end (no applied change; only the untracked seeded/ directory with your results). Useful facts: the generated code's runtime helpers live in zeep-lib/src/model/helpers_content.rs (it is `include_str!`-ed into every output AND compiled as a module of zeep-lib, so unit tests can call it); the generator's entry points are `zeep_lib::reader::{{Files, FilesToRead, XmlReader::read_xml, WriteXml::write_xml}}` and `zeep_lib::utils::read_input_file_and_xsd_files_at_path`. The dependency crates of the generated code (yaserde, yaserde_derive, xml-rs, log, reqwest, tokio) are dependencies of zeep-lib, so an integration test of zeep-lib can `include!` or compile generated text. Do not fetch anything from the network. Finish by listing the directories you produced and a one-line summary of each change.""")
