#!/bin/bash
# tools/run_all.sh [tier] : run every registered check once, print one summary line each
tier=${1:-quick}
cd /verif
for id in $(python3 -c "import json;print(' '.join(c['property_id'] for c in json.load(open('MANIFEST.json'))['checks']))"); do
  start=$(date +%s)
  out=$(./check $id $tier 2>&1); code=$?
  end=$(date +%s)
  echo "$id exit=$code $((end-start))s $(echo "$out" | grep -E "^\[$id\]" | tail -1) $(echo "$out" | grep -c '^KNOWN-FINDING') known $(echo "$out" | grep -m2 'signature' | tr '\n' ' ')"
done
