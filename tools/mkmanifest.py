#!/usr/bin/env python3
"""Regenerates /verif/MANIFEST.json from the table below and validates it (and any evidence
files present) against the schemas in /root/.vp when those are available."""
import json, os, sys, glob

CHECKS = {
 "C01": dict(
    category="exploration",
    technique="generative testing with rustc as oracle: proptest-generated schema models (supported-subset grammar) rendered to XSD/WSDL, emitted by zeep in a worker, type-checked with rustc --emit=metadata against exactly the six documented crates; failures shrunk on the model",
    text="Hundreds (thorough: thousands) of generated schema sets covering every production of the supported subset (multi-file import DAGs, all occurrence combinations, nested sequences, choices, cross-file extensions, element refs, derived simple types, list/union, attributes, keyword member names, default-namespace and re-used prefixes, forward references, WSDLs with headers / one-way / unnamed body parts) are emitted and compiled as a module of a crate that links only yaserde, yaserde_derive, xml-rs, log, reqwest, tokio. Deny-by-default lints stay on (only warnings are allowed), fixed edge inputs with facet and occurrence bounds beyond 32 and 64 bits must compile when accepted, and the repository's own inputs serve as a regression corpus against a committed baseline. Held = every accepted generated input compiled.",
    note="Trusted: rustc and the dependency artifacts built from the repository's Cargo.lock. Gate: type names colliding with prelude identifiers are masked (open finding F17, replayed separately). Inputs outside the grammar are only covered by C13.",
    design="DESIGN.md section 4 C01"),
 "C02": dict(
    category="exploration",
    technique="generative differential testing against an independent reference mapping: proptest-generated schema models -> zeep -> syn member-by-member comparison + a synthesized typed driver (complete struct literals with exactly typed bindings) judged by rustc",
    text="For hundreds (thorough: thousands) of generated schema sets every expected struct (named complex type, simple type, anonymous-typed global element) must exist exactly once in the single module of its namespace with exactly the expected public members: presence, attribute flag, T / Option<T> / Vec<T> from own and enclosing occurrence and choice membership, builtin mapping, order, and nothing undeclared. rustc then type-checks a driver that builds each struct from exactly typed lets, which also pins the module of every struct-typed member.",
    note="Trusted: the reference mapping in expect.rs (DESIGN.md 3.2), syn, rustc. Field names are asserted only for canonical names (words of >= 2 letters in six case styles). Gate: prelude-colliding type names (F17).",
    design="DESIGN.md section 4 C02"),
 "C03": dict(
    category="exploration",
    technique="generative testing with an independent infoset oracle: values generated from the schema model are compiled into a driver as Rust expressions, serialized by yaserde inside the driver, parsed by roxmltree and compared with the infoset the model prescribes",
    text="For generated schema sets, up to five root types each receive three generated values (optionals present/absent, repeats, numeric extremes of every builtin, XML-special and multi-byte text, facet-conformant restricted values, one branch per choice). The serialized document must be namespace-well-formed (roxmltree parses it), every element must carry the local name and the namespace of its declaring schema, attributes must be unqualified and named as declared, children must follow declaration order with one element per item and nothing for absent optionals, and leaf text must equal the value in the value space of its builtin. Request and response envelopes of generated WSDLs (40 quick, 400 thorough) are serialized and compared in the same way.",
    note="Trusted: roxmltree, the expected-infoset construction (values.rs). Excluded as yaserde 0.12 behaviour shown on hand-written structs: tabs/newlines in attribute values, XML-special characters in attributes of struct (simple-type) type (escaped twice), empty text nodes. Member names are canonical.",
    design="DESIGN.md section 4 C03"),
 "C04": dict(
    category="exploration",
    technique="round-trip property testing: instance documents rendered from generated values in four surface styles are deserialized inside a compiled driver; oracle = Debug equality with the value built from the literal, infoset equality of the re-serialization, byte fixpoint of ser-de-ser",
    text="Every generated value is rendered as four instance documents (fresh prefixes on the root; default namespace for the root with prefixes declared at first use; default namespace re-declared on every element; pretty-printed with single quotes). yaserde::de::from_str must succeed on each, yield a value whose Debug text equals that of the value built from the Rust literal, re-serialize to a document infoset-equal to the instance, and ser(de(ser(v))) must equal ser(v) byte for byte.",
    note="Trusted: roxmltree, the instance renderer and value generator (values.rs). Gate: a derived simple type used across namespaces (open finding F45, replayed separately). Same yaserde exclusions as C03.",
    design="DESIGN.md section 4 C04"),
 "C05": dict(
    category="exploration",
    technique="generative testing of WSDL clients: proptest-generated document/literal WSDLs -> zeep -> syn method census + compiled driver (complete envelope literals, method signatures bound as function items) + serialized requests compared with the expected SOAP infoset + response instances deserialized",
    text="For a hundred (thorough: two thousand) generated WSDLs with 1-5 operations of all shapes: exactly one pub async snake_case method per operation on the service type; every Input/Output envelope (Envelope, Header, Body) is built with a complete literal and each method is bound with its exact argument and future output type; every serialized request must be soapenv:Envelope > [Header > bound header elements under their own QNames] > Body > exactly the bound body element with the expected payload infoset; response envelopes in three surface styles must deserialize to the value built from the literal; Service::new(None).location must equal the port address.",
    note="Trusted: roxmltree, values.rs, syn, rustc. Operation, part and service names are canonical (keyword and injection names are C14's domain). Gates: F17 (prelude-colliding names), F45 (derived simple types across namespaces).",
    design="DESIGN.md section 4 C05"),
 "C06": dict(
    category="exploration",
    technique="property-based differential testing: exhaustive small-bound sweep + proptest-generated triples against an executable XSD-facet specification (i128)",
    text="Every (carrier, value, restriction set) triple in an exhaustive small-bound sweep (all subsets of the numeric facets, of the length facets and of an enumeration pool, all integer carriers with their extremes, multi-byte strings) and tens of thousands of proptest-generated full-range triples with Option/Vec nesting are run through the helper source compiled unmodified from /repo and compared with an independent facet specification. Disagreements are minimised to their cause and shrunk. Held = no disagreement on anything explored; not a proof for all bounds (bounds are generated over the whole 64-bit range).",
    note="Trusted: the harness's facet specification (c06.rs spec_leaf), rustc. Text that is a decimal/float/padded numeral under numeric facets is generated but not judged.",
    design="DESIGN.md section 4 C06"),
 "C07": dict(
    category="exploration",
    technique="property-based testing with planted violations: values with a facet violation injected at a generated position versus conforming twins, judged by check_restrictions inside a compiled driver and by a loopback listener that records whether anything was transmitted",
    text="For generated WSDLs whose payload types use restricted simple types at every position (elements, attributes, optional, repeated, nested, header and body, inherited, derived from restricted types) each operation gets a conforming request and one with a violation planted at a tape-chosen leaf; up to five bare complex-type roots per schema get the same. check_restrictions(None) must fail exactly for the planted ones (facets of the type and of all its ancestors count). Calling the generated method with the violating request must yield SoapError::Restriction while the listener sees no such request; the conforming request must arrive.",
    note="Trusted: the facet model in values.rs (merged facets of the derivation chain), the loopback listener (requests are identified by their serialized body). Types whose derivation chain has an empty value space are skipped.",
    design="DESIGN.md section 4 C07"),
 "C08": dict(
    category="exploration",
    technique="generative differential testing on extension forests: C02's syn comparison and typed driver restricted to derived structs, plus a namespace check of every element member's yaserde prefix",
    text="Generated extension forests (chains and fan-out, bases before/after the derived type, in the same or an imported file, own content of every shape, attributes on both sides) are emitted and every derived struct is compared with the reference mapping: base members first in their order, then the extension's elements, then its attributes; the typed driver must compile; each element member's prefix must be bound to the namespace of the schema that declared it.",
    note="Trusted: expect.rs, syn, rustc. The wire-level half (serialised documents) is judged by C03.",
    design="DESIGN.md section 4 C08"),
 "C09": dict(
    category="exploration",
    technique="metamorphic property-based testing: each generated model is built with colliding local names and as a twin with distinct names from the same raw value; the C02/C08 oracles run on both and only failures that the twin does not share count",
    text="Colliding cases reuse a local name for types of two namespaces with different members, name local elements and attributes like global components, name global elements like their type, bind one prefix to different namespaces in different files, use default-namespace QNames and permuted declaration order. Because references are index-based in the model the expected binding is known; rustc's nominal typing (g::mod_a::X vs g::mod_b::X) and the member lists expose a reference bound to the wrong namespace or kind.",
    note="Trusted: expect.rs, syn, rustc. WSDL-level references (message parts) are judged by C05.",
    design="DESIGN.md section 4 C09"),
 "C10": dict(
    category="exploration",
    technique="property-based testing over an adversarial namespace-URI family with a static oracle: the emitted file is parsed with syn and the prefix<->URI and URI<->module relations collected from every yaserde attribute must be bijections, with every used prefix declared",
    text="Thousands of generated file sets (1-6 files, target namespaces and extra declarations drawn from URIs built to collide under three-letter abbreviation, prefixes declared on the root / on the component / not at all, any import relation and order, namespaces imported without a schemaLocation whose file is loaded through another path, URIs abbreviating to the reserved prefix xml, optional WSDL wrapper, collision ladders) are emitted in workers and the output is read with syn. Exactly the statement is asserted: no duplicate module, one prefix per URI and one URI per prefix over the whole file, one module per target namespace holding all its structs, every prefix used by a field or an envelope declared somewhere.",
    note="Trusted: syn and the attribute walker in outscan.rs. Visibility of a declaration where yaserde needs it, and NCName-validity of prefixes, are wire-level facts left to C03/C04.",
    design="DESIGN.md section 4 C10"),
 "C11": dict(
    category="exploration",
    technique="exhaustive enumeration of small import graphs plus proptest-generated larger ones, run in isolated worker processes; BFS-reachability oracle on struct names (syn) and metamorphic byte-equality under changes to unreachable siblings",
    text="All directed import graphs with self-loops over up to 3 files (quick; 4 files in thorough: 262144 graphs x starts) and generated graphs over 5-8 files are rendered to schema files and generated in worker processes. The run must return normally, contain each component of each reachable file exactly once and nothing of unreachable files, and be byte-identical when unreachable siblings are removed, broken, or replaced. Exhaustive within the stated file bound; sampled above it.",
    note="Trusted: the BFS model, syn. Files carry self-contained components (no cross-file type references), so reference resolution across imports is left to C08/C09.",
    design="DESIGN.md section 4 C11"),
 "C12": dict(
    category="exploration",
    technique="metamorphic property-based testing: byte equality of outputs across sampled hash seeds (repeats, threads, fresh processes), permuted file registration orders and call histories on one FilesToRead, over generated order-sensitive WSDLs and the repository corpus",
    text="Every repository input and proptest-generated WSDLs with many operations / multi-part messages are generated repeatedly: in-process (fresh RandomState per map), in threads, in K fresh processes, under every registration order of the sibling files, three times on the same FilesToRead object, written twice from one document, and from eight directory arrangements (creation orders; an unreadable stray sibling under several names) through the directory entry point; all outputs must be byte-identical to the first (with the stray sibling: the outcomes must agree with each other). Inputs include schema sets from the model generator. Hash seeds are sampled, not controlled; with >= 3 operations 8 seeds agreeing by chance is < 1e-5.",
    note="Trusted: byte comparison. readdir order of a real file system is approximated by registration order here; the CLI directory-order axis is covered by C17.",
    design="DESIGN.md section 4 C12"),
 "C13": dict(
    category="exploration",
    technique="structure-aware mutation fuzzing driven by proptest (16 mutation operators on roxmltree positions, 1-3 per case) over real and generated schema sets, each generation in an isolated worker process classified returned / panicked / killed / timeout; thorough adds a coverage-guided libFuzzer campaign",
    text="Thousands of mutants of the repository's schemas, generated WSDLs, import graphs and an extension/list/union/group schema (dangling, duplicate, self- and mutually-referential QNames, swapped tags, spliced subtrees, odd names, truncation, junk) plus API-edge probes (300 colliding namespaces, 3000 nested sequences, 1500- and 2500-long forward chains, doubled references into a foreign namespace, 40 levels of same-named element/group pairs, empty files) are read and written in worker processes under a watchdog. Outcome must be a returned document or a returned error. Failures are clustered by panic site / signal and shrunk.",
    note="Trusted: the worker protocol and watchdog (10 s + 1 s per 100 KB, confirmed twice at 3x before it counts). Nothing is concluded about inputs the mutators and the fuzzer never produce.",
    design="DESIGN.md section 4 C13"),
 "C14": dict(
    category="exploration",
    technique="exhaustive keyword x spelling x position matrix plus proptest-chosen injection payloads at every position where schema text flows into the output; oracle on the token level (syn / proc-macro2: parse, identifier tokens, evaluated string literals) followed by rustc",
    text="Every Rust keyword (strict, reserved, 2024) in three spellings is used as element, attribute, complex type, simple type, global element, operation, part, message and service name (1377 WSDLs). The full product of 44 dangerous texts x 16 positions, every dangerous text in each part of the address and action URLs, 16 whole names that are not words, and (thorough) thousands of further payloads built to break out of string literals, attributes, comments, constructors and function bodies (each carrying a unique marker and a unique identifier to inject) are placed at 16 positions (names, enumeration and facet values, documentation, namespace URI, address, soapAction, service name). The output must parse, must not contain the injected identifier as a token, every literal carrying the marker must evaluate to the original text (URLs: equal after parsing), and rustc must accept the file.",
    note="Trusted: syn, proc-macro2 tokenisation, rustc. Text that only reaches comments is invisible to the token oracle and accepted as long as the file parses and nothing was injected. Inputs the generator rejects are not failures.",
    design="DESIGN.md section 4 C14"),
 "C15": dict(
    category="fault_enumeration",
    technique="fault injection enumerated over every write call of the sink (fail-once and dead-sink modes, rotated error kinds, Interrupted, short writes) with an Err/Ok/panic oracle and byte comparison",
    text="For every repository schema/WSDL that reads and hand-written sets that hit every emitter, the number N of write calls is counted and a fault is injected at every call index (stride-sampled only for documents above 20000 calls in the quick tier; thorough enumerates all). write_xml must return an I/O error, never Ok, never panic; Interrupted must be retried transparently; short-writing sinks must receive byte-identical output.",
    note="Trusted: std::io::Write::write_all semantics; the corpus is what the repository ships plus the mini sets (a writer reached only by other inputs is not exercised).",
    design="DESIGN.md section 4 C15"),
 "C16": dict(
    category="exploration",
    technique="model-based property testing of call histories: proptest-generated scripts (status x body x transport x credentials per call) against a raw-socket loopback HTTP server that records requests; oracle = scripted reference model of the exchange",
    text="Over a thousand generated scripts of 1-4 calls drive the helper send function (compiled unmodified from /repo) with probe envelopes against a scripted server that can refuse, close before or after headers, and answer any status/body combination. Generated clients of generated WSDLs post to the address their constructor took from the WSDL port (host and port replaced by the listener's) and must arrive at exactly that path and query. Per call the recorded traffic (exactly one POST, target, body bytes, Basic credentials iff configured) and the returned Result (value iff 2xx and envelope body, equal to the scripted value; error otherwise) are compared with the script. Failures are shrunk to a minimal script.",
    note="Trusted: the loopback server and reqwest's HTTP framing. Covers the helper that every generated method forwards to; that generated methods forward client, location and credentials unchanged is checked with compiled generated clients in C05.",
    design="DESIGN.md section 4 C16"),
 "C17": dict(
    category="exploration",
    technique="property-based scenario testing of the built zeep binary in sandbox directories (generated input sets, damage, cwd, path spelling, output option, pre-existing output, uncreatable targets, file creation order) with a differential oracle against the library's bytes and a before/after comparison of the output file",
    text="Hundreds of generated CLI scenarios are executed against the zeep binary built from the current tree. Exit 0 requires the output file to equal the library's bytes for the same contents with no stale tail; a non-zero exit requires the pre-existing output to be byte-identical; inputs the library accepts must succeed under every path spelling, working directory and layout (a second dot in the file name, symlinked siblings); with an unreadable sibling the outcome must not depend on where the directory lists it. Failures are shrunk to a minimal scenario.",
    note="Trusted: in-process library bytes as reference (C12 holds on this tree). Run as root: permission-based failures are replaced by uncreatable targets and a non-UTF-8 sibling. A file created where none existed before a failing run is not judged (the statement speaks of pre-existing output).",
    design="DESIGN.md section 4 C17"),
 "C18": dict(
    category="exploration",
    technique="generative compile-time testing: for every generated client rustc must accept a module that passes each method future and free-standing operation future to assert_send, asserts Send+Sync for every envelope type and spawns the calls on a multi-thread tokio runtime",
    text="For generated WSDL clients of all operation shapes rustc type-checks Send assertions on the future of every service method and of every free-standing operation function, Send + Sync assertions on all envelope types, and a tokio::spawn of each call on a multi-thread runtime. A diagnostic inside the assertion module is a C18 failure (e.g. an Rc held across an await). Once per run the helper source is compiled with a hand-written Send-but-not-Sync request envelope: the helper futures must still be Send.",
    note="Trusted: rustc's auto-trait checking. Nothing is executed against a network.",
    design="DESIGN.md section 4 C18"),
 "C19": dict(
    category="exploration",
    technique="property-based testing with a bare-twin oracle: proptest values of hand-written yaserde probe types, bare vs MultiRef-wrapped, compared on bytes, Debug, restriction verdicts and Arc sharing",
    text="Thousands of generated values of six probe shapes (text, attributes, nested Option/Vec members, restricted simple type, flattened attribute group, self-referential node) are serialized, deserialized (including damaged documents) and restriction-checked (a short history of checks with and without a restriction set on the same value) once bare and once wrapped in MultiRef (root and field positions); every observable must be equal, and clones must share the Arc. Held = equal on everything generated.",
    note="Trusted: yaserde derive on the bare twin (its quirks cancel out). Recursive shapes are only deserialized when childless because yaserde 0.12 itself hangs on nested same-type elements (shown with a hand-written Box wrapper).",
    design="DESIGN.md section 4 C19"),
}

NOT_YET = {
}

ALL = ["C%02d" % i for i in range(1, 20)]

def main():
    checks = []
    for pid in ALL:
        if pid not in CHECKS:
            continue
        c = CHECKS[pid]
        checks.append({
            "property_id": pid,
            "quick_cmd": f"./check {pid} quick",
            "thorough_cmd": f"./check {pid} thorough",
            "evidence_file": f"/verif/evidence/{pid}.json",
            "replay_cmd_template": "./check replay {path}",
            "engine": "vh",
            "level_claimed": {"category": c["category"], "text": c["text"], "design_ref": c["design"]},
            "level_note": c["note"],
            "technique": c["technique"],
        })
    na = [{"property_id": p, "reason": NOT_YET.get(p, "check not built yet in this round (planned: see DESIGN.md section 4); nothing is claimed for it")}
          for p in ALL if p not in CHECKS]
    m = {
        "version": 1,
        "setup_cmd": "cd /verif/harness && CARGO_NET_OFFLINE=true cargo build --offline -q -p vh -p gendeps",
        "hooks": {
            "guard": "zeep_verif",
            "enable": "none needed: no hook exists in /repo; the checks drive the public API of zeep-lib (path dependency on /repo/zeep-lib), include helpers_content.rs by path and run the zeep binary",
            "baseline_off_cmd": "cd /repo && cargo test --workspace --no-fail-fast --offline",
            "source_commits": [],
            "add_only": True,
        },
        "engines": [
            {"name": "vh", "path": "/verif/harness/vh", "serves_properties": [c["property_id"] for c in checks],
             "kind_free_text": "Rust harness binary: proptest strategies run from a binary (fixed seed from VERIF_SEED), explicit oracles, shrinking to JSON replay files"},
        ],
        "checks": checks,
        "not_applicable": na,
        "notes": "All checks are ./check <ID> quick|thorough; exit 0 held, 1 VIOLATION, 2 inconclusive (watchdog/internal). Known findings: /verif/known_findings.json. Design: /verif/DESIGN.md.",
    }
    with open("/verif/MANIFEST.json", "w") as f:
        json.dump(m, f, indent=1)
        f.write("\n")
    try:
        import jsonschema
    except ImportError:
        print("jsonschema not importable; skipping validation"); return
    ms = json.load(open("/root/.vp/MANIFEST.schema.json"))
    jsonschema.validate(m, ms)
    es = json.load(open("/root/.vp/EVIDENCE.schema.json"))
    for p in sorted(glob.glob("/verif/evidence/*.json")):
        jsonschema.validate(json.load(open(p)), es)
        print("evidence ok:", p)
    print("MANIFEST ok:", len(checks), "checks,", len(na), "not_applicable")

main()
