#!/usr/bin/env python3
"""tools/seeded_table.py : fill the seeded-change table of DESIGN.md from seeded/RESULTS.tsv and the meta.json files."""
import json, os, re
V = '/verif'
rows = []
for line in open(f'{V}/seeded/RESULTS.tsv'):
    name, prop, res = line.rstrip('\n').split('\t')
    meta = {}
    try:
        meta = json.load(open(f'{V}/seeded/{name}/meta.json'))
    except Exception:
        pass
    what = (meta.get('what_changed') or '').replace('\n', ' ').replace('|', '/')
    what = re.sub(r'\s+', ' ', what)
    if len(what) > 230:
        what = what[:227] + '...'
    res = res.replace('|', '/')
    rows.append((name, prop, what, res))
out = ['| seeded change | property | what was changed | quick check of that property |', '|---|---|---|---|']
for r in rows:
    out.append('| %s | %s | %s | %s |' % r)
caught = sum(1 for r in rows if r[3].startswith('CAUGHT'))
out.append('')
out.append(f'{caught} of {len(rows)} seeded changes are caught by a quick tier: that of the property they were written against, or of the check named in the row where the check of another property is the one that sees it.')
p = f'{V}/DESIGN.md'
s = open(p).read()
b, e = '<!-- SEEDED-TABLE-BEGIN -->', '<!-- SEEDED-TABLE-END -->'
i, j = s.index(b) + len(b), s.index(e)
s = s[:i] + '\n' + '\n'.join(out) + '\n' + s[j:]
open(p, 'w').write(s)
print(f'{caught}/{len(rows)} caught')
