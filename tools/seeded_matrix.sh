#!/bin/bash
# tools/seeded_matrix.sh [name-filter]   run every seeded change against the check of its property
# (quick tier); writes /verif/seeded/RESULTS.tsv   (name, property, result)
cd /verif
out=/verif/seeded/RESULTS.tsv
filter="${1:-}"
tmp=$(mktemp)
for d in /verif/seeded/*/; do
  n=$(basename "$d"); [ -f "$d/patch.diff" ] || continue
  if [ -n "$filter" ] && [[ "$n" != *$filter* ]]; then continue; fi
  p=${n%%-*}
  # a change may be attributed to the check of another property (file "check" in its directory)
  [ -f "$d/check" ] && p=$(cat "$d/check")
  r=$(tools/try_patch.sh "$d/patch.diff" "$p" 2>&1 | tail -1)
  case "$r" in
    *"exit=1"*) res="CAUGHT $(echo "$r" | sed 's/.*signature: //' | cut -c1-90)";;
    *"exit=0"*) res="MISSED";;
    *"does not apply"*) res="PATCH-DOES-NOT-APPLY";;
    *) res="OTHER $r";;
  esac
  printf "%s\t%s\t%s\n" "$n" "$p" "$res" | tee -a "$tmp"
done
if [ -z "$filter" ]; then mv "$tmp" "$out"; else rm -f "$tmp"; fi
