#!/bin/bash
# tools/confirm_seeded.sh <worktree> <seeded-subdir-name>
# Confirms a seeded change in a scratch worktree (outside /repo and /verif): with the patch the
# repository's tests still pass and the demonstration fails; without it the demonstration passes.
# On success copies the directory to /verif/seeded/<name>/ and records what was run.
wt="$1"; name="$2"; d="$wt/seeded/$name"
export CARGO_TARGET_DIR="$wt/target" CARGO_NET_OFFLINE=true
cd "$wt" || exit 2
git checkout -q -- . ; git status --short | grep -v '^??' && { echo "worktree dirty"; exit 2; }
git apply "$d/patch.diff" || { echo "patch does not apply"; exit 3; }
tests=$(cargo test --workspace --offline 2>&1 | grep -E "^test result: ok\. 32 passed" | wc -l)
( cd "$wt" && bash "$d/demo.sh" >/tmp/demo_with.log 2>&1 ); with=$?
git checkout -q -- . ; git clean -fdq -- zeep-lib/tests zeep-lib/examples 2>/dev/null
( cd "$wt" && bash "$d/demo.sh" >/tmp/demo_without.log 2>&1 ); without=$?
git checkout -q -- . ; git clean -fdq -- zeep-lib/tests zeep-lib/examples 2>/dev/null
echo "$name: tests32=$tests demo_with_change_exit=$with demo_clean_exit=$without"
if [ "$tests" = "1" ] && [ "$with" != "0" ] && [ "$without" = "0" ]; then
  mkdir -p /verif/seeded && rm -rf "/verif/seeded/$name" && cp -r "$d" "/verif/seeded/$name"
  python3 - "$name" "$with" <<'PY'
import json,sys
name,with_=sys.argv[1:3]
p=f"/verif/seeded/{name}/meta.json"
try: m=json.load(open(p))
except Exception: m={}
m["confirmed_by_main_session"]={"ran":["git apply patch.diff","cargo test --workspace --offline (32 passed)","sh demo.sh (exit %s with the change)"%with_,"git checkout -- .","sh demo.sh (exit 0 on the clean tree)"],"base_commit":"see git log of /repo at confirmation time"}
json.dump(m,open(p,"w"),indent=1)
PY
  echo "  -> kept in /verif/seeded/$name"
else
  echo "  -> NOT confirmed (see /tmp/demo_with.log /tmp/demo_without.log)"
fi
