// empty: only its dependency artifacts are used
