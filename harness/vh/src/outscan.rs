//! Reading the emitted Rust file with syn: modules, structs, fields, yaserde attributes,
//! aliases, impl blocks and functions.

use std::collections::BTreeMap;
use syn::spanned::Spanned;

#[derive(Clone, Debug, Default)]
pub struct YaAttr {
    pub prefix: Option<String>,
    pub rename: Option<String>,
    pub namespaces: Vec<(String, String)>,
    pub attribute: bool,
    pub text: bool,
    pub flatten: bool,
}

#[derive(Clone, Debug)]
pub struct OField {
    pub ident: String, // as written, e.g. `r#type`
    pub ty: String,    // token text without spaces
    pub public: bool,
    pub ya: YaAttr,
}

#[derive(Clone, Debug)]
pub struct OStruct {
    pub module: Vec<String>, // path of enclosing modules
    pub ident: String,
    pub public: bool,
    pub ya: YaAttr,
    pub fields: Vec<OField>,
    pub line: usize,
}

#[derive(Clone, Debug)]
pub struct OFn {
    pub owner: Option<String>, // impl target type (last segment) when a method
    pub ident: String,
    pub is_async: bool,
    pub public: bool,
    pub inputs: Vec<String>,
    pub output: String,
    pub has_receiver: bool,
}

#[derive(Clone, Debug, Default)]
pub struct Scan {
    pub modules: Vec<Vec<String>>, // every `mod` path declared (duplicates kept)
    pub structs: Vec<OStruct>,
    pub aliases: Vec<(Vec<String>, String, String)>, // (module, ident, target type text)
    pub fns: Vec<OFn>,
}

pub fn ty_text(t: &syn::Type) -> String {
    use quote::ToTokens;
    t.to_token_stream().to_string().replace(' ', "")
}

fn lit_str(e: &syn::Expr) -> Option<String> {
    if let syn::Expr::Lit(l) = e {
        if let syn::Lit::Str(s) = &l.lit {
            return Some(s.value());
        }
    }
    None
}

/// Parse `#[yaserde(...)]` attributes (several may be present; they are merged).
pub fn yaserde_attr(attrs: &[syn::Attribute]) -> YaAttr {
    let mut out = YaAttr::default();
    for a in attrs {
        if !a.path().is_ident("yaserde") {
            continue;
        }
        let _ = a.parse_nested_meta(|meta| {
            let key = meta.path.get_ident().map(|i| i.to_string()).unwrap_or_default();
            match key.as_str() {
                "prefix" => out.prefix = meta.value().ok().and_then(|v| v.parse::<syn::Expr>().ok()).and_then(|e| lit_str(&e)),
                "rename" => out.rename = meta.value().ok().and_then(|v| v.parse::<syn::Expr>().ok()).and_then(|e| lit_str(&e)),
                "attribute" | "text" | "flatten" => {
                    let val = if meta.input.peek(syn::Token![=]) {
                        meta.value().ok().and_then(|v| v.parse::<syn::LitBool>().ok()).map(|b| b.value).unwrap_or(true)
                    } else {
                        true
                    };
                    match key.as_str() {
                        "attribute" => out.attribute = val,
                        "text" => out.text = val,
                        _ => out.flatten = val,
                    }
                }
                "namespaces" => {
                    // namespaces = { "p" = "uri", ... }
                    let v = meta.value()?;
                    let content;
                    syn::braced!(content in v);
                    while !content.is_empty() {
                        let k: syn::LitStr = content.parse()?;
                        let _: syn::Token![=] = content.parse()?;
                        let val: syn::LitStr = content.parse()?;
                        out.namespaces.push((k.value(), val.value()));
                        if content.peek(syn::Token![,]) {
                            let _: syn::Token![,] = content.parse()?;
                        }
                    }
                }
                _ => {
                    // skip an unknown `key = value`
                    if meta.input.peek(syn::Token![=]) {
                        let _ = meta.value().and_then(|v| v.parse::<syn::Expr>());
                    }
                }
            }
            Ok(())
        });
    }
    out
}

fn is_pub(v: &syn::Visibility) -> bool {
    matches!(v, syn::Visibility::Public(_))
}

fn walk(items: &[syn::Item], path: &mut Vec<String>, out: &mut Scan) {
    for it in items {
        match it {
            syn::Item::Mod(m) => {
                path.push(m.ident.to_string());
                out.modules.push(path.clone());
                if let Some((_, items)) = &m.content {
                    walk(items, path, out);
                }
                path.pop();
            }
            syn::Item::Struct(s) => {
                let fields = match &s.fields {
                    syn::Fields::Named(n) => n
                        .named
                        .iter()
                        .map(|f| OField { ident: f.ident.as_ref().map(|i| i.to_string()).unwrap_or_default(), ty: ty_text(&f.ty), public: is_pub(&f.vis), ya: yaserde_attr(&f.attrs) })
                        .collect(),
                    _ => vec![],
                };
                out.structs.push(OStruct { module: path.clone(), ident: s.ident.to_string(), public: is_pub(&s.vis), ya: yaserde_attr(&s.attrs), fields, line: s.span().start().line });
            }
            syn::Item::Type(t) => out.aliases.push((path.clone(), t.ident.to_string(), ty_text(&t.ty))),
            syn::Item::Fn(f) => out.fns.push(fn_of(None, &f.sig, is_pub(&f.vis))),
            syn::Item::Impl(i) => {
                if i.trait_.is_some() {
                    continue;
                }
                let owner = ty_text(&i.self_ty).rsplit("::").next().map(str::to_string);
                for ii in &i.items {
                    if let syn::ImplItem::Fn(f) = ii {
                        out.fns.push(fn_of(owner.clone(), &f.sig, is_pub(&f.vis)));
                    }
                }
            }
            _ => {}
        }
    }
}

fn fn_of(owner: Option<String>, sig: &syn::Signature, public: bool) -> OFn {
    let mut inputs = vec![];
    let mut has_receiver = false;
    for a in &sig.inputs {
        match a {
            syn::FnArg::Receiver(_) => has_receiver = true,
            syn::FnArg::Typed(t) => inputs.push(ty_text(&t.ty)),
        }
    }
    let output = match &sig.output {
        syn::ReturnType::Default => "()".to_string(),
        syn::ReturnType::Type(_, t) => ty_text(t),
    };
    OFn { owner, ident: sig.ident.to_string(), is_async: sig.asyncness.is_some(), public, inputs, output, has_receiver }
}

pub fn scan(output: &str) -> Result<Scan, String> {
    let parsed = syn::parse_file(output).map_err(|e| format!("{e} at line {}", e.span().start().line));
    let result = parsed.map(|f| {
        let mut s = Scan::default();
        walk(&f.items, &mut vec![], &mut s);
        s
    });
    // proc-macro2 (span-locations) keeps every parsed text in a per-thread source map with 32-bit
    // positions: a run that scans gigabytes of output has to release it (no span outlives this call)
    proc_macro2::extra::invalidate_current_thread_spans();
    result
}

impl Scan {
    /// module path (joined with ::) -> namespace URI, from the struct-level yaserde attributes
    pub fn module_uris(&self) -> BTreeMap<String, Vec<String>> {
        let mut m: BTreeMap<String, Vec<String>> = BTreeMap::new();
        for s in &self.structs {
            if s.module.is_empty() {
                continue;
            }
            if let Some(p) = &s.ya.prefix {
                if let Some((_, uri)) = s.ya.namespaces.iter().find(|(k, _)| k == p) {
                    let e = m.entry(s.module.join("::")).or_default();
                    if !e.contains(uri) {
                        e.push(uri.clone());
                    }
                }
            }
        }
        m
    }
    /// modules (joined paths) whose structs declare this URI as their own namespace
    pub fn modules_of_uri(&self, uri: &str) -> Vec<String> {
        self.module_uris().into_iter().filter(|(_, u)| u.iter().any(|x| x == uri)).map(|(m, _)| m).collect()
    }
    pub fn find_struct(&self, module: &str, ident: &str) -> Vec<&OStruct> {
        self.structs.iter().filter(|s| s.module.join("::") == module && s.ident == ident).collect()
    }
}
