//! The generator's run-time helper source (what it appends verbatim to every output),
//! compiled unmodified from /repo's working tree. `helpers` is private in that file with
//! `pub(super)` functions, so thin forwarding wrappers live here, next to the `include!`.
#![allow(dead_code, unused_imports, clippy::all)]

include!("/repo/zeep-lib/src/model/helpers_content.rs");

pub async fn send_using_client<YI, YO, U, P>(
    client: &reqwest::Client,
    url: &str,
    credentials: Option<(U, P)>,
    req: YI,
) -> error::SoapResult<YO>
where
    YI: yaserde::YaSerialize + restrictions::CheckRestrictions,
    YO: yaserde::YaDeserialize,
    U: std::fmt::Display,
    P: std::fmt::Display,
{
    helpers::send_soap_request_using_client(client, url, credentials, req).await
}

pub async fn send<YI, YO, U, P>(url: &str, credentials: Option<(U, P)>, req: YI) -> error::SoapResult<YO>
where
    YI: yaserde::YaSerialize + restrictions::CheckRestrictions,
    YO: yaserde::YaDeserialize,
    U: std::fmt::Display,
    P: std::fmt::Display,
{
    helpers::send_soap_request(url, credentials, req).await
}
