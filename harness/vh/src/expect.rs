//! Reference mapping: what the properties call the "documented" Rust image of a schema model
//! (DESIGN.md section 3.2), written independently of zeep's code.

use crate::model::*;
use serde::{Deserialize, Serialize};

#[derive(Clone, Copy, Debug, PartialEq, Eq, Serialize, Deserialize)]
pub enum Wrap {
    Bare,
    Opt,
    Vec,
}

#[derive(Clone, Debug, PartialEq, Eq, Serialize, Deserialize)]
pub enum ExpTy {
    /// Rust primitive / String, with the XSD builtin it stands for
    Prim { rust: String, builtin: String },
    /// struct generated for a named component (complex type, simple type, global element)
    Struct(QRef),
}

#[derive(Clone, Debug, PartialEq, Eq, Serialize, Deserialize)]
pub struct ExpField {
    pub xml: String,
    pub rust: String,
    pub ty: ExpTy,
    pub wrap: Wrap,
    pub attr: bool,
    /// file whose namespace the member belongs to (the declaring schema, or the referenced element's)
    pub ns_file: usize,
    /// the member's name is canonical, so `rust` is asserted
    pub canonical: bool,
    /// nesting info used for feature tags
    pub depth: usize,
    pub in_choice: bool,
    pub inherited: bool,
    /// id of the innermost enclosing xs:choice (unique within the struct)
    #[serde(default)]
    pub choice_group: Option<usize>,
    /// some enclosing sequence has minOccurs="0"
    #[serde(default)]
    pub in_optional_group: bool,
    /// the member's own occurrence requires it (minOccurs >= 1) whenever its group is present
    #[serde(default)]
    pub required_in_group: bool,
    /// `attribute ref="xml:lang"`
    pub xml_lang: bool,
}

#[derive(Clone, Debug, PartialEq, Eq, Serialize, Deserialize)]
pub enum StructKind {
    Complex,
    /// simple type: `value` member, text content
    Simple { base: ExpTy },
}

#[derive(Clone, Debug, PartialEq, Eq, Serialize, Deserialize)]
pub struct ExpStruct {
    pub q: QRef,
    pub rust: String,
    pub xml: String,
    pub kind: StructKind,
    pub fields: Vec<ExpField>,
    pub canonical: bool,
}

pub fn prim_for(builtin: &str) -> &'static str {
    match builtin {
        "boolean" => "bool",
        "byte" => "i8",
        "short" => "i16",
        "int" => "i32",
        "long" => "i64",
        "unsignedByte" => "u8",
        "unsignedShort" => "u16",
        "unsignedInt" => "u32",
        "unsignedLong" => "u64",
        "integer" | "negativeInteger" | "nonNegativeInteger" | "nonPositiveInteger" | "positiveInteger" => "i32",
        "float" => "f32",
        "double" | "decimal" => "f64",
        _ => "String",
    }
}

pub const RUST_KEYWORDS: [&str; 51] = [
    "as", "break", "const", "continue", "crate", "else", "enum", "extern", "false", "fn", "for", "if", "impl", "in", "let", "loop", "match", "mod", "move", "mut",
    "pub", "ref", "return", "self", "Self", "static", "struct", "super", "trait", "true", "type", "unsafe", "use", "where", "while", "async", "await", "dyn",
    "abstract", "become", "box", "do", "final", "macro", "override", "priv", "typeof", "unsized", "virtual", "yield", "try",
];
/// also reserved in edition 2024
pub const RUST_KEYWORDS_2024: [&str; 1] = ["gen"];

pub fn is_keyword(s: &str) -> bool {
    RUST_KEYWORDS.contains(&s) || RUST_KEYWORDS_2024.contains(&s)
}

/// expected field identifier as written in source (raw identifier when a keyword)
pub fn field_ident(name: &Name) -> String {
    let s = name.snake();
    if is_keyword(&s) { format!("r#{s}") } else { s }
}

fn ty_of(t: &TypeRef) -> ExpTy {
    match t {
        TypeRef::Builtin(b) => ExpTy::Prim { rust: prim_for(b).to_string(), builtin: b.clone() },
        TypeRef::Named(q) => ExpTy::Struct(*q),
    }
}

struct Ctx {
    optional: bool,
    repeats: bool,
    in_choice: bool,
    depth: usize,
    choice_group: Option<usize>,
    seq_optional: bool,
}

fn flatten(m: &Model, file: usize, p: &Particle, ctx: &Ctx, out: &mut Vec<ExpField>, next_group: &mut usize) {
    let wrap = |occ: &Occ| {
        if occ.repeats() || ctx.repeats {
            Wrap::Vec
        } else if occ.optional() || ctx.optional || ctx.in_choice {
            Wrap::Opt
        } else {
            Wrap::Bare
        }
    };
    match p {
        Particle::Elem { name, ty, occ } => out.push(ExpField {
            xml: name.xml(),
            rust: field_ident(name),
            ty: ty_of(ty),
            wrap: wrap(occ),
            attr: false,
            ns_file: file,
            canonical: name.is_canonical(),
            depth: ctx.depth,
            in_choice: ctx.in_choice,
            inherited: false,
            choice_group: ctx.choice_group,
            in_optional_group: ctx.seq_optional,
            required_in_group: !occ.optional(),
            xml_lang: false,
        }),
        Particle::Ref { to, occ } => {
            let c = m.comp(*to);
            out.push(ExpField {
                xml: c.name.xml(),
                rust: field_ident(&c.name),
                // an element of a builtin type is no struct: the member has the builtin's type
                ty: match &c.kind {
                    CompKind::ElementTyped(t @ TypeRef::Builtin(_)) => ty_of(t),
                    _ => ExpTy::Struct(*to),
                },
                wrap: wrap(occ),
                attr: false,
                ns_file: to.file,
                canonical: c.name.is_canonical(),
                depth: ctx.depth,
                in_choice: ctx.in_choice,
                inherited: false,
                choice_group: ctx.choice_group,
                in_optional_group: ctx.seq_optional,
                required_in_group: !occ.optional(),
            xml_lang: false,
            });
        }
        Particle::Seq(s) => {
            let c = Ctx {
                optional: ctx.optional || s.min0,
                repeats: ctx.repeats || s.unbounded,
                in_choice: ctx.in_choice,
                depth: ctx.depth + 1,
                choice_group: ctx.choice_group,
                seq_optional: ctx.seq_optional || s.min0,
            };
            for q in &s.parts {
                flatten(m, file, q, &c, out, next_group);
            }
        }
        Particle::Choice { min0, branches } => {
            *next_group += 1;
            let c = Ctx {
                optional: ctx.optional || *min0,
                repeats: ctx.repeats,
                in_choice: true,
                depth: ctx.depth + 1,
                choice_group: Some(*next_group),
                seq_optional: ctx.seq_optional || *min0,
            };
            for q in branches {
                flatten(m, file, q, &c, out, next_group);
            }
        }
    }
}

pub fn body_fields(m: &Model, file: usize, b: &Body, depth_guard: usize) -> Vec<ExpField> {
    let mut out = vec![];
    if let Some(base) = b.base {
        if depth_guard < 16 {
            if let CompKind::Complex(bb) = &m.comp(base).kind {
                let mut inh = body_fields(m, base.file, bb, depth_guard + 1);
                for f in &mut inh {
                    f.inherited = true;
                }
                out.extend(inh);
            }
        }
    }
    if let Some(s) = &b.seq {
        let c = Ctx { optional: s.min0, repeats: s.unbounded, in_choice: false, depth: 0, choice_group: None, seq_optional: s.min0 };
        // group ids of inherited members come first; keep own ones distinct
        let mut next_group = 1000 * (depth_guard + 1);
        for p in &s.parts {
            flatten(m, file, p, &c, &mut out, &mut next_group);
        }
    }
    for a in &b.attrs {
        out.push(ExpField {
            xml: a.name.xml(),
            rust: field_ident(&a.name),
            ty: ty_of(&a.ty),
            wrap: if a.use_ == AttrUse::Required { Wrap::Bare } else { Wrap::Opt },
            attr: true,
            ns_file: file,
            canonical: a.name.is_canonical(),
            depth: 0,
            in_choice: false,
            inherited: false,
            choice_group: None,
            in_optional_group: false,
            required_in_group: a.use_ == AttrUse::Required,
            xml_lang: a.xml_lang,
        });
    }
    out
}

/// Every struct the output must define for the files reachable from the start file.
pub fn structs(m: &Model) -> Vec<ExpStruct> {
    let mut out = vec![];
    for fi in reachable_files(m) {
        for (ci, c) in m.files[fi].comps.iter().enumerate() {
            let q = QRef { file: fi, comp: ci };
            match &c.kind {
                CompKind::Complex(b) | CompKind::ElementAnon(b) => out.push(ExpStruct {
                    q,
                    rust: c.name.pascal(),
                    xml: c.name.xml(),
                    kind: StructKind::Complex,
                    fields: body_fields(m, fi, b, 0),
                    canonical: c.name.is_canonical(),
                }),
                CompKind::Simple(k) => {
                    let base = match k {
                        SimpleKind::Restriction { base, .. } => match base {
                            // a restriction of a builtin carries its text in a String
                            TypeRef::Builtin(b) => ExpTy::Prim { rust: "String".into(), builtin: b.clone() },
                            TypeRef::Named(q) => ExpTy::Struct(*q),
                        },
                        _ => ExpTy::Prim { rust: "String".into(), builtin: "string".into() },
                    };
                    out.push(ExpStruct { q, rust: c.name.pascal(), xml: c.name.xml(), kind: StructKind::Simple { base }, fields: vec![], canonical: c.name.is_canonical() });
                }
                CompKind::ElementTyped(_) => {}
            }
        }
    }
    out
}

pub fn reachable_files(m: &Model) -> Vec<usize> {
    let mut seen = vec![];
    let mut q = vec![m.start];
    while let Some(i) = q.pop() {
        if !seen.contains(&i) {
            seen.push(i);
            for j in &m.files[i].imports {
                q.push(*j);
            }
        }
    }
    seen.sort();
    seen
}

/// The component whose struct a reference finally denotes: a typed global element is an alias
/// of its type.
pub fn resolve_struct(m: &Model, q: QRef) -> Option<QRef> {
    let mut cur = q;
    for _ in 0..8 {
        match &m.comp(cur).kind {
            CompKind::ElementTyped(TypeRef::Named(t)) => cur = *t,
            CompKind::ElementTyped(TypeRef::Builtin(_)) => return None,
            _ => return Some(cur),
        }
    }
    None
}
