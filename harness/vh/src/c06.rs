//! C06 — a value passes the restriction check exactly when it satisfies the facets.
//!
//! Differential against an executable XSD-facet specification (i128 arithmetic), over an
//! exhaustive small-bound sweep plus proptest-generated full-range cases.

use crate::common::*;
use crate::hc::restrictions::{CheckRestrictions, Restrictions};
use proptest::prelude::*;
use proptest::strategy::ValueTree;
use serde::{Deserialize, Serialize};
use serde_json::json;
use std::collections::BTreeMap;
use std::rc::Rc;

#[derive(Clone, Copy, Debug, PartialEq, Eq, Serialize, Deserialize, PartialOrd, Ord)]
pub enum Carrier {
    I8,
    U8,
    I16,
    U16,
    I32,
    U32,
    I64,
    U64,
    F32,
    F64,
    Bool,
    Str,
}

pub const INT_CARRIERS: [Carrier; 8] = [
    Carrier::I8,
    Carrier::U8,
    Carrier::I16,
    Carrier::U16,
    Carrier::I32,
    Carrier::U32,
    Carrier::I64,
    Carrier::U64,
];

impl Carrier {
    pub fn range(self) -> Option<(i128, i128)> {
        Some(match self {
            Carrier::I8 => (i8::MIN as i128, i8::MAX as i128),
            Carrier::U8 => (0, u8::MAX as i128),
            Carrier::I16 => (i16::MIN as i128, i16::MAX as i128),
            Carrier::U16 => (0, u16::MAX as i128),
            Carrier::I32 => (i32::MIN as i128, i32::MAX as i128),
            Carrier::U32 => (0, u32::MAX as i128),
            Carrier::I64 => (i64::MIN as i128, i64::MAX as i128),
            Carrier::U64 => (0, u64::MAX as i128),
            _ => return None,
        })
    }
}

#[derive(Clone, Debug, PartialEq, Serialize, Deserialize)]
pub enum Leaf {
    Int(i128),
    F(f64),
    B(bool),
    S(String),
}

#[derive(Clone, Debug, PartialEq, Serialize, Deserialize)]
pub enum Shape {
    Bare(Leaf),
    Opt(Option<Leaf>),
    Vec(Vec<Leaf>),
    VecOpt(Vec<Option<Leaf>>),
}

#[derive(Clone, Debug, Default, PartialEq, Serialize, Deserialize)]
pub struct R {
    pub min_inclusive: Option<i64>,
    pub max_inclusive: Option<i64>,
    pub min_exclusive: Option<i64>,
    pub max_exclusive: Option<i64>,
    pub length: Option<usize>,
    pub min_length: Option<usize>,
    pub max_length: Option<usize>,
    pub enumeration: Option<Vec<String>>,
}

impl R {
    fn numeric_active(&self) -> bool {
        self.min_inclusive.is_some()
            || self.max_inclusive.is_some()
            || self.min_exclusive.is_some()
            || self.max_exclusive.is_some()
    }
    fn length_active(&self) -> bool {
        self.length.is_some() || self.min_length.is_some() || self.max_length.is_some()
    }
    fn active_names(&self) -> Vec<&'static str> {
        let mut v = vec![];
        if self.min_inclusive.is_some() {
            v.push("minInclusive");
        }
        if self.max_inclusive.is_some() {
            v.push("maxInclusive");
        }
        if self.min_exclusive.is_some() {
            v.push("minExclusive");
        }
        if self.max_exclusive.is_some() {
            v.push("maxExclusive");
        }
        if self.length.is_some() {
            v.push("length");
        }
        if self.min_length.is_some() {
            v.push("minLength");
        }
        if self.max_length.is_some() {
            v.push("maxLength");
        }
        if self.enumeration.is_some() {
            v.push("enumeration");
        }
        v
    }
    pub fn to_real(&self) -> Rc<Restrictions> {
        Rc::new(Restrictions {
            // `as _`: whatever integer type the helper's fields have (i64 since the fix of F58)
            min_inclusive: self.min_inclusive.map(|b| b as _),
            max_inclusive: self.max_inclusive.map(|b| b as _),
            min_exclusive: self.min_exclusive.map(|b| b as _),
            max_exclusive: self.max_exclusive.map(|b| b as _),
            length: self.length,
            min_length: self.min_length,
            max_length: self.max_length,
            enumeration: self.enumeration.clone(),
        })
    }
}

#[derive(Clone, Debug, PartialEq, Serialize, Deserialize)]
pub struct Case {
    pub carrier: Carrier,
    pub shape: Shape,
    pub r: Option<R>,
}

// ---------------------------------------------------------------------------------------------
// The specification

#[derive(Clone, Copy, PartialEq, Eq, Debug)]
pub enum Verdict {
    Accept,
    Reject,
    /// the statement does not decide this case (decimal / padded numeric text under numeric facets)
    Unasserted,
}

fn int_facets_ok(v: i128, r: &R) -> bool {
    r.min_inclusive.is_none_or(|b| v >= b as i128)
        && r.max_inclusive.is_none_or(|b| v <= b as i128)
        && r.min_exclusive.is_none_or(|b| v > b as i128)
        && r.max_exclusive.is_none_or(|b| v < b as i128)
}

/// `[+-]?[0-9]+`
fn integer_lexical(s: &str) -> Option<i128> {
    let body = s.strip_prefix(['+', '-']).unwrap_or(s);
    if body.is_empty() || body.len() > 30 || !body.bytes().all(|b| b.is_ascii_digit()) {
        return None;
    }
    s.parse::<i128>().ok()
}

/// Text that XSD would read as some number (decimal, float, padded) but not as a plain integer.
fn other_numeric_lexical(s: &str) -> bool {
    let t = s.trim();
    if t != s && !t.is_empty() {
        // surrounding white space: collapse would make it whatever `t` is
        return integer_lexical(t).is_some() || other_numeric_lexical(t);
    }
    if matches!(t, "INF" | "-INF" | "+INF" | "NaN") {
        return true;
    }
    let body = t.strip_prefix(['+', '-']).unwrap_or(t);
    if body.len() > 30 && body.bytes().all(|b| b.is_ascii_digit()) {
        return true; // huge integer, outside the spec's i128 window
    }
    let (mant, exp) = match body.split_once(['e', 'E']) {
        Some((m, e)) => (m, Some(e)),
        None => (body, None),
    };
    if let Some(e) = exp {
        let e = e.strip_prefix(['+', '-']).unwrap_or(e);
        if e.is_empty() || !e.bytes().all(|b| b.is_ascii_digit()) {
            return false;
        }
    }
    let digits = mant.bytes().filter(|b| b.is_ascii_digit()).count();
    let dots = mant.bytes().filter(|b| *b == b'.').count();
    digits >= 1 && dots <= 1 && digits + dots == mant.len() && (dots == 1 || exp.is_some())
}

pub fn spec_leaf(carrier: Carrier, leaf: &Leaf, r: Option<&R>) -> Verdict {
    let Some(r) = r else { return Verdict::Accept };
    match (carrier, leaf) {
        (Carrier::F32 | Carrier::F64 | Carrier::Bool, _) => Verdict::Accept,
        (_, Leaf::Int(v)) => {
            let mut ok = int_facets_ok(*v, r);
            if let Some(en) = &r.enumeration {
                // value-space membership for an integer carrier
                ok &= en.iter().any(|e| integer_lexical(e) == Some(*v));
            }
            if ok { Verdict::Accept } else { Verdict::Reject }
        }
        (_, Leaf::S(s)) => {
            let n = s.chars().count();
            let mut ok = r.length.is_none_or(|l| n == l)
                && r.min_length.is_none_or(|l| n >= l)
                && r.max_length.is_none_or(|l| n <= l);
            if let Some(en) = &r.enumeration {
                ok &= en.iter().any(|e| e == s);
            }
            if r.numeric_active() {
                match integer_lexical(s) {
                    Some(v) => ok &= int_facets_ok(v, r),
                    None => {
                        if other_numeric_lexical(s) {
                            // if something else already rejects, the verdict is decided anyway
                            if ok {
                                return Verdict::Unasserted;
                            }
                        } else {
                            ok = false;
                        }
                    }
                }
            }
            if ok { Verdict::Accept } else { Verdict::Reject }
        }
        _ => Verdict::Accept,
    }
}

pub fn spec(case: &Case) -> Verdict {
    let r = case.r.as_ref();
    let leaves: Vec<&Leaf> = match &case.shape {
        Shape::Bare(l) => vec![l],
        Shape::Opt(o) => o.iter().collect(),
        Shape::Vec(v) => v.iter().collect(),
        Shape::VecOpt(v) => v.iter().flatten().collect(),
    };
    let mut unasserted = false;
    for l in leaves {
        match spec_leaf(case.carrier, l, r) {
            Verdict::Reject => return Verdict::Reject,
            Verdict::Unasserted => unasserted = true,
            Verdict::Accept => {}
        }
    }
    if unasserted { Verdict::Unasserted } else { Verdict::Accept }
}

// ---------------------------------------------------------------------------------------------
// The implementation under test

fn run_typed<T: CheckRestrictions + Clone>(shape: &Shape, conv: impl Fn(&Leaf) -> T, r: Option<Rc<Restrictions>>) -> bool {
    match shape {
        Shape::Bare(l) => conv(l).check_restrictions(r).is_ok(),
        Shape::Opt(o) => o.as_ref().map(&conv).check_restrictions(r).is_ok(),
        Shape::Vec(v) => v.iter().map(&conv).collect::<Vec<T>>().check_restrictions(r).is_ok(),
        Shape::VecOpt(v) => v
            .iter()
            .map(|o| o.as_ref().map(&conv))
            .collect::<Vec<Option<T>>>()
            .check_restrictions(r)
            .is_ok(),
    }
}

fn int_of(l: &Leaf) -> i128 {
    match l {
        Leaf::Int(v) => *v,
        _ => 0,
    }
}

/// true = accepted
pub fn actual(case: &Case) -> bool {
    let r = case.r.as_ref().map(R::to_real);
    let s = &case.shape;
    match case.carrier {
        Carrier::I8 => run_typed(s, |l| int_of(l) as i8, r),
        Carrier::U8 => run_typed(s, |l| int_of(l) as u8, r),
        Carrier::I16 => run_typed(s, |l| int_of(l) as i16, r),
        Carrier::U16 => run_typed(s, |l| int_of(l) as u16, r),
        Carrier::I32 => run_typed(s, |l| int_of(l) as i32, r),
        Carrier::U32 => run_typed(s, |l| int_of(l) as u32, r),
        Carrier::I64 => run_typed(s, |l| int_of(l) as i64, r),
        Carrier::U64 => run_typed(s, |l| int_of(l) as u64, r),
        Carrier::F32 => run_typed(s, |l| if let Leaf::F(f) = l { *f as f32 } else { 0.0 }, r),
        Carrier::F64 => run_typed(s, |l| if let Leaf::F(f) = l { *f } else { 0.0 }, r),
        Carrier::Bool => run_typed(s, |l| matches!(l, Leaf::B(true)), r),
        Carrier::Str => run_typed(s, |l| if let Leaf::S(x) = l { x.clone() } else { String::new() }, r),
    }
}

// ---------------------------------------------------------------------------------------------
// Classification

fn leaves(shape: &Shape) -> Vec<&Leaf> {
    match shape {
        Shape::Bare(l) => vec![l],
        Shape::Opt(o) => o.iter().collect(),
        Shape::Vec(v) => v.iter().collect(),
        Shape::VecOpt(v) => v.iter().flatten().collect(),
    }
}

fn nontrivial(case: &Case) -> bool {
    let ls = leaves(&case.shape);
    for l in ls {
        match l {
            Leaf::Int(v) => {
                if (*v < i32::MIN as i128 || *v > i32::MAX as i128)
                    && matches!(case.carrier, Carrier::I64 | Carrier::U64 | Carrier::U32)
                {
                    return true;
                }
                if let Some(r) = &case.r {
                    for b in [r.min_inclusive, r.max_inclusive, r.min_exclusive, r.max_exclusive].into_iter().flatten() {
                        if (*v - b as i128).abs() <= 1 {
                            return true;
                        }
                    }
                }
            }
            Leaf::S(s) => {
                if let Some(r) = &case.r {
                    if r.length_active() && s.len() != s.chars().count() {
                        return true;
                    }
                    if let Some(v) = integer_lexical(s) {
                        for b in
                            [r.min_inclusive, r.max_inclusive, r.min_exclusive, r.max_exclusive].into_iter().flatten()
                        {
                            if (v - b as i128).abs() <= 1 {
                                return true;
                            }
                        }
                    }
                    let n = s.chars().count() as i64;
                    for b in [r.length, r.min_length, r.max_length].into_iter().flatten() {
                        if (n - b as i64).abs() <= 1 && s.len() != s.chars().count() {
                            return true;
                        }
                    }
                }
            }
            _ => {}
        }
    }
    false
}

fn disagrees(c: &Case, dir: Verdict) -> bool {
    let e = spec(c);
    e == dir && (e == Verdict::Accept) != actual(c)
}

/// Greedy reduction of a disagreeing case to its cause: a single leaf, and only the facets
/// without which the disagreement (in the same direction) disappears.
pub fn minimize(case: &Case, dir: Verdict) -> Case {
    let mut best = case.clone();
    // single leaf
    let ls: Vec<Leaf> = leaves(&case.shape).into_iter().cloned().collect();
    for l in ls {
        let c = Case { carrier: case.carrier, shape: Shape::Bare(l), r: case.r.clone() };
        if disagrees(&c, dir) {
            best = c;
            break;
        }
    }
    if let Some(_) = &best.r {
        let try_none = Case { r: None, ..best.clone() };
        if disagrees(&try_none, dir) {
            return try_none;
        }
        let mut changed = true;
        while changed {
            changed = false;
            let r = best.r.clone().unwrap();
            let mut cands: Vec<R> = vec![];
            macro_rules! drop_facet {
                ($f:ident) => {
                    if r.$f.is_some() {
                        let mut x = r.clone();
                        x.$f = None;
                        cands.push(x);
                    }
                };
            }
            drop_facet!(min_inclusive);
            drop_facet!(max_inclusive);
            drop_facet!(min_exclusive);
            drop_facet!(max_exclusive);
            drop_facet!(length);
            drop_facet!(min_length);
            drop_facet!(max_length);
            drop_facet!(enumeration);
            for x in cands {
                let c = Case { r: Some(x), ..best.clone() };
                if disagrees(&c, dir) {
                    best = c;
                    changed = true;
                    break;
                }
            }
        }
    }
    best
}

/// Signature of a disagreement: which carrier family, which way, and the cause class
/// (computed on the minimized case).
fn signature(case: &Case, expected: Verdict) -> String {
    let case = &minimize(case, expected);
    let fam = match case.carrier {
        Carrier::Str => "string",
        Carrier::F32 | Carrier::F64 | Carrier::Bool => "float-bool",
        Carrier::I32 => "i32",
        _ => "other-int",
    };
    let exp = if expected == Verdict::Accept { "accept" } else { "reject" };
    let cause = match &case.r {
        None => "no-restriction-set".to_string(),
        Some(r) => {
            let names = r.active_names();
            if names.is_empty() {
                "empty-restriction-set".to_string()
            } else {
                // which facets does some leaf sit exactly on / which alone decide?
                let mut on_bound: Vec<&str> = vec![];
                for l in leaves(&case.shape) {
                    let v = match l {
                        Leaf::Int(v) => Some(*v),
                        Leaf::S(s) => integer_lexical(s),
                        _ => None,
                    };
                    if let Some(v) = v {
                        for (n, b) in [
                            ("minInclusive", r.min_inclusive),
                            ("maxInclusive", r.max_inclusive),
                            ("minExclusive", r.min_exclusive),
                            ("maxExclusive", r.max_exclusive),
                        ] {
                            if b.map(|b| b as i128) == Some(v) && !on_bound.contains(&n) {
                                on_bound.push(n);
                            }
                        }
                    }
                }
                if !on_bound.is_empty() {
                    format!("value-on-bound:{}", on_bound.join("+"))
                } else {
                    format!("facets:{}", names.join("+"))
                }
            }
        }
    };
    format!("C06 {fam} expected={exp} {cause}")
}

// ---------------------------------------------------------------------------------------------
// Generators

fn arb_bound() -> impl Strategy<Value = i64> {
    prop_oneof![
        4 => -20i64..=20,
        2 => any::<i32>().prop_map(i64::from),
        1 => prop_oneof![Just(i32::MIN as i64), Just(i32::MAX as i64), Just(i32::MIN as i64 + 1), Just(i32::MAX as i64 - 1), Just(0i64)],
        // bounds beyond 32 bits (ten-digit identifiers, unsignedInt's maximum, 64-bit extremes)
        2 => any::<i64>(),
        1 => prop_oneof![Just(i32::MAX as i64 + 1), Just(i32::MIN as i64 - 1), Just(u32::MAX as i64), Just(u32::MAX as i64 + 1), Just(9_999_999_999i64), Just(i64::MAX), Just(i64::MIN), Just(i64::MAX - 1)],
    ]
}

fn arb_r() -> impl Strategy<Value = Option<R>> {
    let facets = (
        proptest::option::weighted(0.4, arb_bound()),
        proptest::option::weighted(0.4, arb_bound()),
        proptest::option::weighted(0.25, arb_bound()),
        proptest::option::weighted(0.25, arb_bound()),
        proptest::option::weighted(0.2, 0usize..8),
        proptest::option::weighted(0.3, 0usize..8),
        proptest::option::weighted(0.3, 0usize..12),
        proptest::option::weighted(0.25, proptest::collection::vec(arb_text(), 0..4)),
    )
        .prop_map(|(a, b, c, d, e, f, g, h)| R {
            min_inclusive: a,
            max_inclusive: b,
            min_exclusive: c,
            max_exclusive: d,
            length: e,
            min_length: f,
            max_length: g,
            enumeration: h,
        });
    proptest::option::weighted(0.9, facets)
}

fn arb_text() -> impl Strategy<Value = String> {
    prop_oneof![
        3 => (-25i64..=25).prop_map(|v| v.to_string()),
        2 => any::<i64>().prop_map(|v| v.to_string()),
        1 => any::<i32>().prop_map(|v| format!("{v:+}")),
        1 => (0u32..500).prop_map(|v| format!("{v:05}")),
        3 => "[a-zé😀 ]{0,12}",
        1 => "\\PC{0,40}",
        1 => prop_oneof![Just("2.5".to_string()), Just(" 7 ".to_string()), Just("1e3".to_string()), Just("".to_string()), Just("-".to_string()), Just("NaN".to_string())],
    ]
}

fn arb_int_for(c: Carrier) -> BoxedStrategy<i128> {
    let (lo, hi) = c.range().unwrap();
    let lo64 = lo as i64 as i128; // fits: lo >= i64::MIN
    let _ = lo64;
    let full: BoxedStrategy<i128> = match c {
        Carrier::U64 => any::<u64>().prop_map(|v| v as i128).boxed(),
        Carrier::I64 => any::<i64>().prop_map(|v| v as i128).boxed(),
        _ => ((lo as i64)..=(hi as i64)).prop_map(|v| v as i128).boxed(),
    };
    let small = (-25i64..=25).prop_map(move |v| (v as i128).clamp(lo, hi));
    let edges = prop_oneof![
        Just(lo),
        Just(hi),
        Just((i32::MAX as i128 + 1).clamp(lo, hi)),
        Just((i32::MIN as i128 - 1).clamp(lo, hi)),
        Just((i32::MAX as i128).clamp(lo, hi)),
        Just((i32::MIN as i128).clamp(lo, hi)),
    ];
    prop_oneof![4 => small, 3 => full, 2 => edges].boxed()
}

fn arb_leaf(c: Carrier) -> BoxedStrategy<Leaf> {
    match c {
        Carrier::Str => arb_text().prop_map(Leaf::S).boxed(),
        Carrier::F32 | Carrier::F64 => any::<f64>().prop_map(Leaf::F).boxed(),
        Carrier::Bool => any::<bool>().prop_map(Leaf::B).boxed(),
        _ => arb_int_for(c).prop_map(Leaf::Int).boxed(),
    }
}

fn arb_shape(c: Carrier) -> BoxedStrategy<Shape> {
    prop_oneof![
        5 => arb_leaf(c).prop_map(Shape::Bare),
        2 => proptest::option::weighted(0.8, arb_leaf(c)).prop_map(Shape::Opt),
        2 => proptest::collection::vec(arb_leaf(c), 0..4).prop_map(Shape::Vec),
        1 => proptest::collection::vec(proptest::option::weighted(0.7, arb_leaf(c)), 0..4).prop_map(Shape::VecOpt),
    ]
    .boxed()
}

fn arb_carrier() -> impl Strategy<Value = Carrier> {
    prop_oneof![
        3 => Just(Carrier::Str),
        2 => Just(Carrier::I32),
        1 => Just(Carrier::I8),
        1 => Just(Carrier::U8),
        1 => Just(Carrier::I16),
        1 => Just(Carrier::U16),
        1 => Just(Carrier::U32),
        2 => Just(Carrier::I64),
        2 => Just(Carrier::U64),
        1 => Just(Carrier::F32),
        1 => Just(Carrier::F64),
        1 => Just(Carrier::Bool),
    ]
}

/// A random case whose restriction set is biased to sit right next to the generated value.
fn arb_case() -> impl Strategy<Value = Case> {
    arb_carrier()
        .prop_flat_map(|c| (Just(c), arb_shape(c), arb_r(), any::<u8>(), -1i32..=1))
        .prop_map(|(carrier, shape, mut r, which, delta)| {
            // with probability 1/2 move one numeric facet onto / next to a leaf value
            if which & 1 == 1 {
                let v = leaves(&shape).first().and_then(|l| match l {
                    Leaf::Int(v) => Some(*v),
                    Leaf::S(s) => integer_lexical(s),
                    _ => None,
                });
                if let (Some(v), Some(r)) = (v, r.as_mut()) {
                    if let Ok(b) = i64::try_from(v + delta as i128) {
                        match (which >> 1) & 3 {
                            0 => r.min_inclusive = Some(b),
                            1 => r.max_inclusive = Some(b),
                            2 => r.min_exclusive = Some(b),
                            _ => r.max_exclusive = Some(b),
                        }
                    }
                }
            }
            Case { carrier, shape, r }
        })
}

// ---------------------------------------------------------------------------------------------
// Driver

struct Run<'a> {
    ev: Evidence,
    findings: &'a Findings,
    failures: BTreeMap<String, Case>, // first (smallest in sweep order) case per signature
    unasserted: u64,
}

impl Run<'_> {
    fn judge(&mut self, case: &Case, count_distinct: bool) -> Option<String> {
        let exp = spec(case);
        if exp == Verdict::Unasserted {
            self.unasserted += 1;
            return None;
        }
        let act = actual(case);
        let nt = nontrivial(case);
        if count_distinct {
            self.ev.case(&format!("{case:?}"), nt);
        } else {
            self.ev.evaluations += 1;
        }
        if (exp == Verdict::Accept) != act {
            let sig = signature(case, exp);
            self.failures.entry(sig.clone()).or_insert_with(|| case.clone());
            return Some(sig);
        }
        None
    }
}

fn opt_range(lo: i32, hi: i32) -> Vec<Option<i64>> {
    let mut v = vec![None];
    v.extend((lo..=hi).map(|b| Some(b as i64)));
    v
}

fn sweep(run: &mut Run, tier: Tier) {
    let b = tier.pick(3, 5);
    let bounds = opt_range(-b, b);
    // numeric facets x integer carriers and numeric text
    let mut int_values: Vec<i128> = ((-b - 2) as i128..=(b + 2) as i128).collect();
    int_values.extend([
        i32::MAX as i128,
        i32::MAX as i128 + 1,
        i32::MIN as i128,
        i32::MIN as i128 - 1,
        i64::MAX as i128,
        i64::MIN as i128,
        u64::MAX as i128,
        u32::MAX as i128,
        i8::MIN as i128,
        i8::MAX as i128,
        u8::MAX as i128,
        i16::MIN as i128,
        i16::MAX as i128,
        u16::MAX as i128,
    ]);
    let mut texts: Vec<String> = ((-b - 2)..=(b + 2)).map(|v| v.to_string()).collect();
    texts.extend(
        ["+2", "03", "-0", "2147483647", "2147483648", "-2147483649", "9223372036854775808", "", "abc", "-", "1x"]
            .iter()
            .map(|s| s.to_string()),
    );
    for mi in &bounds {
        for ma in &bounds {
            for me in &bounds {
                for mx in &bounds {
                    let r = R {
                        min_inclusive: *mi,
                        max_inclusive: *ma,
                        min_exclusive: *me,
                        max_exclusive: *mx,
                        ..R::default()
                    };
                    for c in INT_CARRIERS {
                        let (lo, hi) = c.range().unwrap();
                        for v in &int_values {
                            if *v < lo || *v > hi {
                                continue;
                            }
                            let case = Case { carrier: c, shape: Shape::Bare(Leaf::Int(*v)), r: Some(r.clone()) };
                            run.judge(&case, true);
                        }
                    }
                    for t in &texts {
                        let case = Case { carrier: Carrier::Str, shape: Shape::Bare(Leaf::S(t.clone())), r: Some(r.clone()) };
                        run.judge(&case, true);
                    }
                }
            }
        }
    }
    run.ev.class_n("sweep.numeric-facet-sets", (bounds.len() as u64).pow(4));

    // no restriction set: every carrier extreme must be accepted
    for c in INT_CARRIERS {
        let (lo, hi) = c.range().unwrap();
        for v in &int_values {
            if *v < lo || *v > hi {
                continue;
            }
            for r in [None, Some(R::default())] {
                let case = Case { carrier: c, shape: Shape::Bare(Leaf::Int(*v)), r };
                run.judge(&case, true);
            }
        }
    }

    // length facets x strings
    let alphabet = ['a', 'é', '😀', '7'];
    let maxlen = tier.pick(5, 6);
    let mut strings = vec![String::new()];
    let mut frontier = vec![String::new()];
    for _ in 0..maxlen {
        let mut next = vec![];
        for s in &frontier {
            for ch in alphabet {
                let mut t = s.clone();
                t.push(ch);
                next.push(t);
            }
        }
        strings.extend(next.iter().cloned());
        frontier = next;
    }
    let lens: Vec<Option<usize>> = std::iter::once(None).chain((0..=tier.pick(4, 6)).map(Some)).collect();
    for l in &lens {
        for mn in &lens {
            for mx in &lens {
                let r = R { length: *l, min_length: *mn, max_length: *mx, ..R::default() };
                for s in &strings {
                    let case = Case { carrier: Carrier::Str, shape: Shape::Bare(Leaf::S(s.clone())), r: Some(r.clone()) };
                    run.judge(&case, true);
                }
                // length facets do not apply to numeric carriers
                for c in [Carrier::I32, Carrier::I64, Carrier::U8] {
                    for v in [0i128, 7, 100] {
                        let case = Case { carrier: c, shape: Shape::Bare(Leaf::Int(v)), r: Some(r.clone()) };
                        run.judge(&case, true);
                    }
                }
            }
        }
    }
    run.ev.class_n("sweep.length-facet-sets", (lens.len() as u64).pow(3));

    // enumerations: all subsets of a small pool, string and integer carriers
    let pool = ["a", "é", "1", "2", "02", ""];
    let probes = ["a", "é", "1", "2", "02", "", "b", "3", "A"];
    for mask in 0u32..(1 << pool.len()) {
        let en: Vec<String> = pool.iter().enumerate().filter(|(i, _)| mask >> i & 1 == 1).map(|(_, s)| s.to_string()).collect();
        let r = R { enumeration: Some(en), ..R::default() };
        for p in probes {
            let case = Case { carrier: Carrier::Str, shape: Shape::Bare(Leaf::S(p.to_string())), r: Some(r.clone()) };
            run.judge(&case, true);
        }
        for c in [Carrier::I32, Carrier::I64, Carrier::U8, Carrier::I16] {
            for v in [0i128, 1, 2, 3] {
                let case = Case { carrier: c, shape: Shape::Bare(Leaf::Int(v)), r: Some(r.clone()) };
                run.judge(&case, true);
            }
        }
        // floats and booleans are never rejected
        for (c, l) in [(Carrier::F64, Leaf::F(1.0)), (Carrier::F32, Leaf::F(-3.5)), (Carrier::Bool, Leaf::B(true))] {
            let r2 = R { min_inclusive: Some(5), max_exclusive: Some(-5), length: Some(3), ..r.clone() };
            let case = Case { carrier: c, shape: Shape::Bare(l), r: Some(r2) };
            run.judge(&case, true);
        }
    }
    run.ev.class_n("sweep.enumeration-sets", 1 << pool.len());
}

pub fn run(tier: Tier) -> i32 {
    let findings = Findings::load();
    findings.print_fixed("C06");
    let ev = Evidence::new(
        "C06",
        tier,
        "exploration",
        "triples (carrier, value, restriction set): an exhaustive sweep of every subset of the four numeric facets with small bounds x values around them and every carrier's extremes, every subset of the three length facets x all short strings over {a, é, 😀, 7}, every enumeration subset of a 6-string pool; plus proptest-generated full-range triples with Option/Vec nesting and facets moved next to the value. Judged against an i128 XSD-facet specification. Non-trivial: a value within 1 of an active numeric bound, or outside i32 on a 64-bit/unsigned carrier, or a multi-byte string under an active length facet; distinct by the full triple.",
    );
    let mut run = Run { ev, findings: &findings, failures: BTreeMap::new(), unasserted: 0 };

    sweep(&mut run, tier);
    let sweep_evals = run.ev.evaluations;
    run.ev.extra.insert("sweep_evaluations".into(), json!(sweep_evals));

    // random part
    let n = tier.pick(40_000, 2_000_000);
    let mut runner = crate::common::runner("C06");
    let strat = arb_case();
    let mut random_failures: BTreeMap<String, Case> = BTreeMap::new();
    for i in 0..n {
        let mut tree = strat.new_tree(&mut runner).expect("generate");
        let case = tree.current();
        if i < 3 {
            run.ev.sample(serde_json::to_value(&case).unwrap());
        }
        match &case.shape {
            Shape::Bare(_) => run.ev.class("random.shape.bare"),
            Shape::Opt(_) => run.ev.class("random.shape.option"),
            Shape::Vec(_) => run.ev.class("random.shape.vec"),
            Shape::VecOpt(_) => run.ev.class("random.shape.vec-option"),
        }
        if case.r.is_none() {
            run.ev.class("random.no-restriction-set");
        }
        let had = run.failures.len();
        if let Some(sig) = run.judge(&case, tier == Tier::Quick || i % 8 == 0) {
            if !random_failures.contains_key(&sig) && (run.failures.len() > had || !random_failures.contains_key(&sig)) {
                // shrink this one against "still disagrees with the same signature"
                let small = shrink(
                    &mut tree,
                    |c| {
                        let e = spec(c);
                        e != Verdict::Unasserted && (e == Verdict::Accept) != actual(c) && signature(c, e) == sig
                    },
                    400,
                );
                random_failures.insert(sig, small);
            }
        }
    }
    // prefer the shrunk random witness only when the sweep has none for that signature
    let mut witnesses: BTreeMap<String, Case> = BTreeMap::new();
    for (sig, c) in &run.failures {
        witnesses.insert(sig.clone(), random_failures.get(sig).cloned().filter(|s| format!("{s:?}").len() < format!("{c:?}").len()).unwrap_or_else(|| c.clone()));
    }

    run.ev.extra.insert("unasserted_cases".into(), json!(run.unasserted));
    run.ev.sample(json!({"carrier":"I64","shape":{"Bare":{"Int": (i32::MAX as i64)+1}},"r":null, "note":"sweep: no restriction set, value outside i32"}));
    run.ev.assume("the helper source is compiled unmodified from /repo/zeep-lib/src/model/helpers_content.rs by include!");
    run.ev.assume("text that is a decimal/float/padded numeral under numeric facets is generated but not judged (the statement only fixes integer comparisons)");

    let mut shown = 0;
    for (sig, case) in witnesses {
        if shown >= 12 {
            run.ev.violations += 1;
            continue;
        }
        shown += 1;
        let exp = spec(&case);
        let v = json!({"case": case, "expected": format!("{exp:?}"), "actual_accepts": actual(&case)});
        route_failure(&mut run.ev, run.findings, "disagreement-with-facet-spec", &sig, v);
    }
    run.ev.finish()
}

pub fn replay(case: &serde_json::Value) -> i32 {
    let c: Case = serde_json::from_value(case["case"].clone()).expect("C06 replay case");
    let exp = spec(&c);
    let act = actual(&c);
    println!("case: {c:?}\nspec: {exp:?}  implementation accepts: {act}");
    if exp != Verdict::Unasserted && (exp == Verdict::Accept) != act {
        println!("VIOLATION property=C06 replay=(this file)");
        1
    } else {
        0
    }
}
