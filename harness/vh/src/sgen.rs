//! proptest strategies for schema models. A strategy produces a *raw* model whose references
//! are u16 selectors; `build` resolves them by construction (no rejection): selectors pick among
//! the components that may legally be referenced, names are made distinct per namespace and
//! per struct, and type containment stays acyclic unless the profile asks for recursion.

use crate::common::idx;
use crate::model::*;
use proptest::prelude::*;
use serde::{Deserialize, Serialize};
use std::collections::BTreeSet;

pub const FIRST: [&str; 51] = [
    // a first word "xml": names such as xmlData (a global element of that name is referred to as
    // ref="tns:xmlData", which is not a reference into the XML namespace)
    "xml", "user", "item", "cart", "book", "page", "line", "note", "task", "team", "role", "city", "road", "ship", "tree", "wind", "rain", "snow", "fire", "lake", "hill",
    "bird", "fish", "wolf", "bear", "lion", "frog", "moth", "seed", "leaf", "root", "door", "wall", "roof", "lamp", "desk", "sofa", "coin", "bank", "loan", "bill",
    "mail", "post", "news", "song", "film", "game", "card", "dice", "king", "pawn",
];
pub const EXTRA: [&str; 20] = ["id", "name", "code", "list", "info", "data", "ref", "set", "key", "value", "count", "total", "date", "time", "flag", "kind", "part", "unit", "rate", "size"];
/// last URI segments with pairwise distinct three-letter abbreviations
pub const SEGS: [&str; 12] = ["alpha", "bravo", "charlie", "delta", "echo", "foxtrot", "golf", "hotel", "india", "juliet", "kilo", "lima"];
pub const IMPORT_PREFIXES: [&str; 8] = ["imp", "t", "m", "ns1", "ext", "q", "lib", "dep"];

/// Feature switches = gates (DESIGN.md section 5.2). A masked feature is rewritten to its safe
/// alternative by `build` and counted.
#[derive(Clone, Debug, Serialize, Deserialize)]
pub struct Profile {
    pub max_files: usize,
    pub wsdl: u8, // 0 never, 1 sometimes, 2 always
    pub nested_seq: bool,
    pub choice: bool,
    pub extension: bool,
    pub ext_attrs: bool,
    pub elem_ref: bool,
    pub ref_to_typed_elem: bool,
    pub derived_simple: bool,
    pub list_union: bool,
    pub max_occurs_n: bool,
    pub seq_occurs: bool,
    pub attributes: bool,
    pub cross_ns_types: bool,
    pub default_ns: bool,
    pub prefix_reuse: bool,
    pub keyword_names: bool,
    pub std_names: bool,
    pub docs: bool,
    pub same_name_elem_and_type: bool,
    pub recursive_vec: bool,
    pub headers: bool,
    pub one_way: bool,
    pub body_without_parts: bool,
    pub lower_case_ops: bool,
    pub facets: bool,
    pub forward_refs: bool,
    /// most complex types extend an earlier one (C08 profile)
    #[serde(default)]
    pub ext_bias: bool,
    /// reuse local names across namespaces and kinds (C09 profile)
    #[serde(default)]
    pub collide: bool,
    /// namespace URIs whose last segments abbreviate alike (prefixes typ, typ1, typ2 ...)
    #[serde(default)]
    pub colliding_abbrev: bool,
    /// a simple type derived from another named simple type may be used as the type of a member
    /// declared in a different namespace (open finding F45 masks this for the wire checks)
    #[serde(default = "yes")]
    pub derived_simple_foreign_use: bool,
    /// many restricted simple types, many of them derived from other restricted types, used as
    /// member types wherever a builtin would have been chosen (C07 profile)
    #[serde(default)]
    pub restrict_bias: bool,
    /// document order is any permutation of the components (Lehmer code of `perm`) instead of a
    /// rotation / reversal of the construction order
    #[serde(default)]
    pub full_perm: bool,
    /// elements named like their type, refs to exactly those elements and extensions of exactly
    /// those types are preferred: references that differ in nothing but the component kind
    #[serde(default)]
    pub kind_mix: bool,
    /// `<xs:attribute ref="xml:lang"/>` members (structure checks only: the generated code
    /// writes the attribute as `lang`, see DESIGN.md)
    /// 0 = none, 1 = with any use=, 2 = never required (wire checks: no value is ever generated for it)
    #[serde(default)]
    pub xml_lang: u8,
    /// namespace URIs whose zeep abbreviation would be the reserved prefix `xml`
    #[serde(default)]
    pub reserved_prefix_uris: bool,
    /// WSDLs whose own target namespace differs from their inline schema's, and several inline schemas
    #[serde(default)]
    pub wsdl_shapes: bool,
    /// global elements of a builtin type, referred to with element ref=
    #[serde(default)]
    pub elem_of_builtin: bool,
    /// a sequence of elements as a branch of a choice (structure checks; the value engine knows
    /// choice groups of single members only)
    #[serde(default)]
    pub seq_in_choice: bool,
    /// import prefixes declared on the complexType nodes that use them instead of on the schema root
    #[serde(default)]
    pub nested_xmlns: bool,
    /// user-defined components named like XSD builtins (duration, language, dateTime, ...)
    #[serde(default)]
    pub builtin_like_names: bool,
}

fn yes() -> bool {
    true
}

impl Profile {
    pub fn full() -> Profile {
        Profile {
            max_files: 4,
            wsdl: 1,
            nested_seq: true,
            choice: true,
            extension: true,
            ext_attrs: true,
            elem_ref: true,
            ref_to_typed_elem: true,
            derived_simple: true,
            list_union: true,
            max_occurs_n: true,
            seq_occurs: true,
            attributes: true,
            cross_ns_types: true,
            default_ns: true,
            prefix_reuse: true,
            keyword_names: true,
            std_names: true,
            docs: true,
            same_name_elem_and_type: true,
            recursive_vec: true,
            headers: true,
            one_way: true,
            body_without_parts: true,
            lower_case_ops: true,
            facets: true,
            forward_refs: true,
            ext_bias: false,
            collide: false,
            colliding_abbrev: false,
            derived_simple_foreign_use: true,
            restrict_bias: false,
            full_perm: true,
            kind_mix: false,
            xml_lang: 0,
            reserved_prefix_uris: true,
            wsdl_shapes: true,
            elem_of_builtin: true,
            seq_in_choice: false,
            nested_xmlns: true,
            builtin_like_names: true,
        }
    }
    /// switch a feature off by its tag name; returns false for an unknown tag
    pub fn mask(&mut self, tag: &str) -> bool {
        match tag {
            "nested_seq" => self.nested_seq = false,
            "choice" => self.choice = false,
            "extension" => self.extension = false,
            "ext_attrs" => self.ext_attrs = false,
            "elem_ref" => self.elem_ref = false,
            "ref_to_typed_elem" => self.ref_to_typed_elem = false,
            "derived_simple" => self.derived_simple = false,
            "list_union" => self.list_union = false,
            "max_occurs_n" => self.max_occurs_n = false,
            "seq_occurs" => self.seq_occurs = false,
            "attributes" => self.attributes = false,
            "cross_ns_types" => self.cross_ns_types = false,
            "default_ns" => self.default_ns = false,
            "prefix_reuse" => self.prefix_reuse = false,
            "keyword_names" => self.keyword_names = false,
            "std_names" => self.std_names = false,
            "docs" => self.docs = false,
            "same_name_elem_and_type" => self.same_name_elem_and_type = false,
            "recursive_vec" => self.recursive_vec = false,
            "headers" => self.headers = false,
            "one_way" => self.one_way = false,
            "body_without_parts" => self.body_without_parts = false,
            "lower_case_ops" => self.lower_case_ops = false,
            "facets" => self.facets = false,
            "forward_refs" => self.forward_refs = false,
            "derived_simple_foreign_use" => self.derived_simple_foreign_use = false,
            _ => return false,
        }
        true
    }
}

// ---- raw model --------------------------------------------------------------------------------

#[derive(Clone, Debug, Serialize, Deserialize)]
pub struct RawName {
    pub extra: Vec<u8>, // indices into EXTRA (0..=2 words)
    pub style: u8,
    pub special: u8, // 0 = canonical; otherwise selects a keyword / std name when the profile allows
}

#[derive(Clone, Debug, Serialize, Deserialize)]
pub enum RawTy {
    Builtin(u8),
    Named(u16),
}

#[derive(Clone, Debug, Serialize, Deserialize)]
pub struct RawOcc {
    pub min: u8, // 0 absent, 1 "0", 2 "1"
    pub max: u8, // 0 absent, 1 "1", 2 N, 3 unbounded
    pub n: u8,
}

#[derive(Clone, Debug, Serialize, Deserialize)]
pub enum RawParticle {
    Elem { name: RawName, ty: RawTy, occ: RawOcc },
    Ref { sel: u16, occ: RawOcc },
    Seq { min0: bool, unbounded: bool, parts: Vec<RawParticle> },
    Choice { min0: bool, branches: Vec<RawParticle> },
}

#[derive(Clone, Debug, Serialize, Deserialize)]
pub struct RawAttr {
    pub name: RawName,
    pub ty: RawTy,
    pub use_: u8,
}

#[derive(Clone, Debug, Serialize, Deserialize)]
pub struct RawBody {
    pub base: Option<u16>,
    pub seq_min0: bool,
    pub seq_unbounded: bool,
    pub parts: Vec<RawParticle>,
    pub attrs: Vec<RawAttr>,
    pub has_seq: bool,
}

#[derive(Clone, Debug, Serialize, Deserialize)]
pub struct RawFacets {
    pub kind: u8,
    pub a: i16,
    pub b: u8,
    pub en: Vec<String>,
}

#[derive(Clone, Debug, Serialize, Deserialize)]
pub enum RawComp {
    Simple { name: RawName, base: RawTy, facets: RawFacets, form: u8, doc: Option<String> },
    Complex { name: RawName, body: RawBody, doc: Option<String> },
    ElemAnon { name: RawName, body: RawBody, doc: Option<String> },
    ElemTyped { name: RawName, ty: RawTy, same_name: bool },
}

#[derive(Clone, Debug, Serialize, Deserialize)]
pub struct RawFile {
    pub import_sel: Vec<u16>,
    pub comps: Vec<RawComp>,
    pub perm: u16,
    pub own_prefix: u8,
    pub imp_prefix: u8,
    pub xs: bool,
}

#[derive(Clone, Debug, Serialize, Deserialize)]
pub struct RawOp {
    pub name: RawName,
    pub in_parts: Vec<(RawName, u16)>,
    pub out_parts: Option<Vec<(RawName, u16)>>,
    pub in_headers: u8,
    pub out_headers: u8,
    pub in_named: bool,
    pub out_named: bool,
    pub action: u8,
    pub lower: bool,
}

#[derive(Clone, Debug, Serialize, Deserialize)]
pub struct RawWsdl {
    pub ops: Vec<RawOp>,
    pub service: RawName,
    pub addr: u16,
    pub on: u8,
}

#[derive(Clone, Debug, Serialize, Deserialize)]
pub struct RawModel {
    pub files: Vec<RawFile>,
    pub wsdl: RawWsdl,
}

// ---- strategies -------------------------------------------------------------------------------

fn arb_name() -> impl Strategy<Value = RawName> {
    (proptest::collection::vec(0u8..EXTRA.len() as u8, 0..3), 0u8..6, prop_oneof![12 => Just(0u8), 1 => 1u8..=255]).prop_map(|(extra, style, special)| RawName { extra, style, special })
}

fn arb_ty() -> impl Strategy<Value = RawTy> {
    prop_oneof![3 => (0u8..BUILTINS.len() as u8).prop_map(RawTy::Builtin), 2 => any::<u16>().prop_map(RawTy::Named)]
}

fn arb_occ() -> impl Strategy<Value = RawOcc> {
    (prop_oneof![3 => Just(0u8), 2 => Just(1u8), 1 => Just(2u8)], prop_oneof![4 => Just(0u8), 1 => Just(1u8), 1 => Just(2u8), 2 => Just(3u8)], any::<u8>()).prop_map(|(min, max, n)| RawOcc { min, max, n })
}

fn arb_particle() -> impl Strategy<Value = RawParticle> {
    let leaf = prop_oneof![
        6 => (arb_name(), arb_ty(), arb_occ()).prop_map(|(name, ty, occ)| RawParticle::Elem { name, ty, occ }),
        1 => (any::<u16>(), arb_occ()).prop_map(|(sel, occ)| RawParticle::Ref { sel, occ }),
    ];
    leaf.prop_recursive(2, 8, 3, |inner| {
        prop_oneof![
            2 => (any::<bool>(), prop_oneof![4 => Just(false), 1 => Just(true)], proptest::collection::vec(inner.clone(), 1..4)).prop_map(|(min0, unbounded, parts)| RawParticle::Seq { min0, unbounded, parts }),
            2 => (any::<bool>(), proptest::collection::vec(inner, 2..4)).prop_map(|(min0, branches)| RawParticle::Choice { min0, branches }),
        ]
    })
}

fn arb_attr() -> impl Strategy<Value = RawAttr> {
    (arb_name(), arb_ty(), 0u8..3).prop_map(|(name, ty, use_)| RawAttr { name, ty, use_ })
}

fn arb_body() -> impl Strategy<Value = RawBody> {
    (
        proptest::option::weighted(0.3, any::<u16>()),
        prop_oneof![4 => Just(false), 1 => Just(true)],
        prop_oneof![6 => Just(false), 1 => Just(true)],
        proptest::collection::vec(arb_particle(), 0..5),
        proptest::collection::vec(arb_attr(), 0..3),
        prop_oneof![9 => Just(true), 1 => Just(false)],
    )
        .prop_map(|(base, seq_min0, seq_unbounded, parts, attrs, has_seq)| RawBody { base, seq_min0, seq_unbounded, parts, attrs, has_seq })
}

fn arb_doc() -> impl Strategy<Value = Option<String>> {
    proptest::option::weighted(0.25, "[A-Za-z][A-Za-z ,.]{0,40}(\n[A-Za-z ]{1,30}){0,2}")
}

fn arb_facets() -> impl Strategy<Value = RawFacets> {
    (0u8..8, -50i16..50, 0u8..12, proptest::collection::vec("[a-zA-Z0-9]{1,8}", 1..4)).prop_map(|(kind, a, b, en)| RawFacets { kind, a, b, en })
}

fn arb_comp() -> impl Strategy<Value = RawComp> {
    prop_oneof![
        3 => (arb_name(), arb_ty(), arb_facets(), prop_oneof![8 => Just(0u8), 1 => Just(1u8), 1 => Just(2u8)], arb_doc()).prop_map(|(name, base, facets, form, doc)| RawComp::Simple { name, base, facets, form, doc }),
        5 => (arb_name(), arb_body(), arb_doc()).prop_map(|(name, body, doc)| RawComp::Complex { name, body, doc }),
        2 => (arb_name(), arb_body(), arb_doc()).prop_map(|(name, body, doc)| RawComp::ElemAnon { name, body, doc }),
        2 => (arb_name(), any::<u16>().prop_map(RawTy::Named), any::<bool>()).prop_map(|(name, ty, same_name)| RawComp::ElemTyped { name, ty, same_name }),
    ]
}

fn arb_file() -> impl Strategy<Value = RawFile> {
    (proptest::collection::vec(any::<u16>(), 0..3), proptest::collection::vec(arb_comp(), 1..9), any::<u16>(), any::<u8>(), any::<u8>(), any::<bool>())
        .prop_map(|(import_sel, comps, perm, own_prefix, imp_prefix, xs)| RawFile { import_sel, comps, perm, own_prefix, imp_prefix, xs })
}

fn arb_op() -> impl Strategy<Value = RawOp> {
    let parts = || proptest::collection::vec((arb_name(), any::<u16>()), 1..4);
    (arb_name(), parts(), proptest::option::weighted(0.85, parts()), 0u8..3, 0u8..2, any::<bool>(), any::<bool>(), 0u8..4, any::<bool>())
        .prop_map(|(name, in_parts, out_parts, in_headers, out_headers, in_named, out_named, action, lower)| RawOp { name, in_parts, out_parts, in_headers, out_headers, in_named, out_named, action, lower })
}

fn arb_wsdl() -> impl Strategy<Value = RawWsdl> {
    (proptest::collection::vec(arb_op(), 1..6), arb_name(), any::<u16>(), any::<u8>()).prop_map(|(ops, service, addr, on)| RawWsdl { ops, service, addr, on })
}

pub fn arb_raw(max_files: usize) -> impl Strategy<Value = RawModel> {
    (proptest::collection::vec(arb_file(), 1..=max_files.max(1)), arb_wsdl()).prop_map(|(files, wsdl)| RawModel { files, wsdl })
}

// ---- build ------------------------------------------------------------------------------------

const KEYWORD_FIELD_NAMES: [&str; 16] = ["type", "ref", "match", "struct", "use", "async", "static", "self", "in", "for", "loop", "move", "where", "override", "yield", "dyn"];
const STD_TYPE_NAMES: [&str; 8] = ["Option", "Result", "Error", "String", "Vec", "Box", "Default", "Some"];

#[derive(Default, Clone, Debug, Serialize, Deserialize)]
pub struct BuildStats {
    pub masked: std::collections::BTreeMap<String, u64>,
    pub features: BTreeSet<String>,
}

impl BuildStats {
    fn mask(&mut self, tag: &str) {
        *self.masked.entry(tag.to_string()).or_insert(0) += 1;
    }
    fn feat(&mut self, tag: &str) {
        self.features.insert(tag.to_string());
    }
}

struct Slot {
    q: QRef,
    tag: u8, // 0 simple, 1 complex, 2 elem-anon, 3 elem-typed (to complex)
}

struct B<'a> {
    p: &'a Profile,
    stats: BuildStats,
    files: Vec<SFile>,
    slots: Vec<Slot>,
    ns_counter: Vec<usize>,
    /// snake images of every component and member name handed out so far: yaserde 0.12 misreads
    /// (or spins on) an element nested in an element of the same name, so names are kept unique
    /// model-wide unless a profile asks for collisions
    taken: BTreeSet<String>,
}

fn style_of(s: u8) -> Style {
    match s % 6 {
        0 => Style::LowerCamel,
        1 => Style::UpperCamel,
        2 => Style::Snake,
        3 => Style::Kebab,
        4 => Style::Screaming,
        _ => Style::Dotted,
    }
}

impl B<'_> {
    /// component name: first word assigned by a per-namespace counter => distinct PascalCase images
    fn comp_name(&mut self, file: usize, raw: &RawName, type_like: bool) -> Name {
        let k = self.ns_counter[file];
        self.ns_counter[file] += 1;
        if raw.special != 0 && raw.special % 3 == 1 && self.p.keyword_names {
            // a keyword (Capitalised or as is) as the name of a global component; at most one per
            // keyword and namespace
            let kw = KEYWORD_FIELD_NAMES[raw.special as usize % KEYWORD_FIELD_NAMES.len()];
            let spelled = if raw.style % 2 == 0 { kw.to_string() } else { kw[..1].to_uppercase() + &kw[1..] };
            let taken = self.files[file].comps.iter().any(|c| c.name.pascal().eq_ignore_ascii_case(kw));
            if !taken && kw != "self" {
                self.stats.feat("name.keyword-global-component");
                return Name::raw(&spelled);
            }
        }
        if raw.special != 0 && type_like && self.p.std_names && k < STD_TYPE_NAMES.len() && raw.special % 3 == 0 {
            self.stats.feat("name.std-colliding");
            return Name::raw(STD_TYPE_NAMES[(raw.special as usize / 3) % STD_TYPE_NAMES.len()]);
        } else if raw.special != 0 && type_like && !self.p.std_names && raw.special % 3 == 0 {
            self.stats.mask("std_names");
        }
        // a user-defined component named like an XSD builtin (referred to as tns:duration)
        // (only in files that write their own QNames with a prefix: an unprefixed `date` is the builtin for zeep,
        // which does not track the default namespace - see DESIGN.md section 7)
        if type_like && self.p.builtin_like_names && k % 7 == 3 && !self.files[file].own_prefix.is_empty() {
            const LIKE: [&[&str]; 11] = [&["duration"], &["language"], &["date", "time"], &["time"], &["date"], &["decimal"], &["integer"], &["long"], &["short"], &["byte"], &["double"]];
            let words = LIKE[(file * 5 + k + raw.extra.len()) % LIKE.len()];
            let name = Name::canonical(words, Style::LowerCamel);
            if !self.taken.contains(&name.snake()) {
                self.taken.insert(name.snake());
                self.stats.feat("name.like-a-builtin");
                return name;
            }
        }
        let mut words = vec![FIRST[(file * 13 + k) % FIRST.len()].to_string()];
        for e in &raw.extra {
            words.push(EXTRA[*e as usize % EXTRA.len()].to_string());
        }
        let mut name = Name { words, style: style_of(raw.style) };
        let mut t = 0;
        while self.taken.contains(&name.snake()) && t < EXTRA.len() {
            name.words.push(EXTRA[(k + t) % EXTRA.len()].to_string());
            t += 1;
        }
        self.taken.insert(name.snake());
        name
    }
    /// member name, distinct (snake image) from everything in `used`
    fn member_name(&mut self, raw: &RawName, used: &mut BTreeSet<String>, salt: usize) -> Name {
        if raw.special != 0 {
            if self.p.keyword_names {
                let kw = KEYWORD_FIELD_NAMES[raw.special as usize % KEYWORD_FIELD_NAMES.len()];
                if used.insert(kw.to_string()) {
                    self.stats.feat("name.keyword");
                    return Name::raw(kw);
                }
            } else {
                self.stats.mask("keyword_names");
            }
        }
        for t in 0..FIRST.len() {
            let mut words = vec![FIRST[(salt * 7 + t + raw.extra.len() * 3) % FIRST.len()].to_string()];
            for e in &raw.extra {
                words.push(EXTRA[*e as usize % EXTRA.len()].to_string());
            }
            let n = Name { words, style: style_of(raw.style) };
            if !self.taken.contains(&n.snake()) && used.insert(n.snake()) {
                self.taken.insert(n.snake());
                return n;
            }
        }
        // pools exhausted for this shape: lengthen the name until it is new
        for t in 0..FIRST.len() * EXTRA.len() {
            let n = Name { words: vec![FIRST[(salt + t) % FIRST.len()].to_string(), EXTRA[t % EXTRA.len()].to_string(), EXTRA[(t / EXTRA.len() + salt) % EXTRA.len()].to_string(), "x".repeat(2 + t % 3)], style: style_of(raw.style) };
            if !self.taken.contains(&n.snake()) && used.insert(n.snake()) {
                self.taken.insert(n.snake());
                return n;
            }
        }
        Name::canonical(&["fallback", "member"], Style::LowerCamel)
    }
    /// is there a component of another kind (element vs type) with the same name in the same file?
    fn has_kind_twin(&self, q: QRef) -> bool {
        let me = &self.files[q.file].comps[q.comp];
        let is_elem = |c: &Comp| matches!(c.kind, CompKind::ElementTyped(_) | CompKind::ElementAnon(_));
        self.files[q.file].comps.iter().enumerate().any(|(i, c)| i != q.comp && c.name.xml() == me.name.xml() && is_elem(c) != is_elem(me))
    }
    /// slots visible from `file` with rank below `limit`, of the given tags
    fn candidates(&self, file: usize, limit: usize, tags: &[u8], own_only: bool) -> Vec<QRef> {
        self.slots[..limit.min(self.slots.len())]
            .iter()
            .filter(|s| tags.contains(&s.tag))
            .filter(|s| s.q.file == file || (!own_only && self.files[file].imports.contains(&s.q.file) && self.p.cross_ns_types))
            .map(|s| s.q)
            .collect()
    }
    fn resolve_ty(&mut self, file: usize, limit: usize, t: &RawTy, simple_only: bool) -> TypeRef {
        match t {
            RawTy::Builtin(b) if self.p.restrict_bias && b % 2 == 0 && !self.candidates(file, limit, &[0], true).is_empty() => {
                let c = self.candidates(file, limit, &[0], true);
                TypeRef::Named(c[*b as usize % c.len()])
            }
            RawTy::Builtin(b) => TypeRef::Builtin(BUILTINS[*b as usize % BUILTINS.len()].to_string()),
            RawTy::Named(sel) => {
                let tags: &[u8] = if simple_only { &[0] } else { &[0, 1] };
                let mut c = self.candidates(file, limit, tags, false);
                if !self.p.derived_simple_foreign_use {
                    let before = c.len();
                    c.retain(|q| q.file == file || !matches!(&self.files[q.file].comps[q.comp].kind, CompKind::Simple(SimpleKind::Restriction { base: TypeRef::Named(_), .. })));
                    if c.len() < before {
                        self.stats.mask("derived_simple_foreign_use");
                    }
                }
                if c.is_empty() {
                    TypeRef::Builtin(BUILTINS[*sel as usize % BUILTINS.len()].to_string())
                } else {
                    let q = c[idx(*sel, c.len())];
                    if q.file != file {
                        self.stats.feat("type.cross-namespace");
                    }
                    TypeRef::Named(q)
                }
            }
        }
    }
    fn occ(&mut self, o: &RawOcc) -> Occ {
        let min = match o.min {
            0 => None,
            1 => Some(0),
            _ => Some(1),
        };
        let max = match o.max {
            0 => MaxOcc::Absent,
            1 => MaxOcc::One,
            2 => {
                if self.p.max_occurs_n {
                    self.stats.feat("occ.max-n");
                    // small bounds, and bounds around the widths a narrow counter type could have
                    let pool: [u32; 10] = [2, 3, 4, 5, 255, 256, 1000, 65535, 65536, 100_000];
                    let n = pool[o.n as usize % pool.len()];
                    if n >= 255 {
                        self.stats.feat("occ.max-n>=255");
                    }
                    MaxOcc::N(n)
                } else {
                    self.stats.mask("max_occurs_n");
                    MaxOcc::Unbounded
                }
            }
            _ => MaxOcc::Unbounded,
        };
        Occ { min, max }
    }
    fn particle(&mut self, file: usize, limit: usize, p: &RawParticle, used: &mut BTreeSet<String>, salt: &mut usize, depth: usize, in_choice: bool) -> Option<Particle> {
        *salt += 1;
        match p {
            RawParticle::Elem { name, ty, occ } => {
                let n = self.member_name(name, used, *salt);
                let ty = self.resolve_ty(file, limit, ty, false);
                Some(Particle::Elem { name: n, ty, occ: self.occ(occ) })
            }
            RawParticle::Ref { sel, occ } => {
                if !self.p.elem_ref {
                    self.stats.mask("elem_ref");
                    return None;
                }
                let tags: &[u8] = if self.p.ref_to_typed_elem { &[2, 3] } else { &[2] };
                let mut c = self.candidates(file, limit, tags, false);
                if c.is_empty() {
                    return None;
                }
                if self.p.kind_mix {
                    let twins: Vec<QRef> = c.iter().copied().filter(|q| self.has_kind_twin(*q)).collect();
                    if !twins.is_empty() {
                        c = twins;
                    }
                }
                let q = c[idx(*sel, c.len())];
                let snake = self.files[q.file].comps[q.comp].name.snake();
                if !used.insert(snake) {
                    return None;
                }
                self.stats.feat("particle.ref");
                Some(Particle::Ref { to: q, occ: self.occ(occ) })
            }
            RawParticle::Seq { min0, unbounded, parts } => {
                if !self.p.nested_seq || depth >= 2 {
                    if !self.p.nested_seq {
                        self.stats.mask("nested_seq");
                    }
                    // safe alternative: inline the members
                    return parts.first().and_then(|q| self.particle(file, limit, q, used, salt, depth, in_choice));
                }
                let (m0, ub) = if self.p.seq_occurs { (*min0, *unbounded) } else { (false, false) };
                let ps: Vec<Particle> = parts.iter().filter_map(|q| self.particle(file, limit, q, used, salt, depth + 1, false)).collect();
                if ps.is_empty() {
                    return None;
                }
                self.stats.feat("particle.nested-sequence");
                Some(Particle::Seq(Seq { min0: m0, unbounded: ub, parts: ps }))
            }
            RawParticle::Choice { min0, branches } => {
                if !self.p.choice || in_choice {
                    if !self.p.choice {
                        self.stats.mask("choice");
                    }
                    return branches.first().and_then(|q| self.particle(file, limit, q, used, salt, depth, in_choice));
                }
                // branches are plain elements / refs
                let ps: Vec<Particle> = branches
                    .iter()
                    .filter_map(|q| match q {
                        RawParticle::Elem { .. } | RawParticle::Ref { .. } => self.particle(file, limit, q, used, salt, depth + 1, true),
                        // a sequence as a branch: its members come and go together (structure checks only)
                        RawParticle::Seq { parts, .. } if self.p.seq_in_choice && parts.iter().filter(|x| matches!(x, RawParticle::Elem { .. })).count() >= 2 => {
                            let ps: Vec<Particle> = parts.iter().filter(|x| matches!(x, RawParticle::Elem { .. })).filter_map(|x| self.particle(file, limit, x, used, salt, depth + 1, true)).collect();
                            if ps.len() >= 2 {
                                self.stats.feat("particle.choice.sequence-branch");
                                Some(Particle::Seq(Seq { min0: false, unbounded: false, parts: ps }))
                            } else {
                                ps.into_iter().next()
                            }
                        }
                        RawParticle::Seq { parts, .. } | RawParticle::Choice { branches: parts, .. } => parts.first().and_then(|x| match x {
                            RawParticle::Elem { .. } => self.particle(file, limit, x, used, salt, depth + 1, true),
                            _ => None,
                        }),
                    })
                    .collect();
                if ps.len() < 2 {
                    return ps.into_iter().next();
                }
                self.stats.feat("particle.choice");
                Some(Particle::Choice { min0: *min0, branches: ps })
            }
        }
    }
    fn body(&mut self, file: usize, limit: usize, b: &RawBody, rank: usize) -> Body {
        let mut used: BTreeSet<String> = BTreeSet::new();
        let mut base = None;
        let base_sel = b.base.or(if (self.p.ext_bias && rank % 4 != 0) || (self.p.kind_mix && rank % 2 == 0) { Some((rank as u16).wrapping_mul(7919)) } else { None });
        // kind mix: odd ranks refer to the element of an element/type pair and extend nothing
        let ref_only = self.p.kind_mix && self.p.elem_ref && self.p.ref_to_typed_elem && rank % 2 == 1 && self.candidates(file, limit, &[2, 3], false).into_iter().any(|q| self.has_kind_twin(q));
        if let Some(sel) = base_sel.filter(|_| !ref_only) {
            if self.p.extension {
                let mut c = self.candidates(file, limit, &[1], false);
                if self.p.kind_mix {
                    let twins: Vec<QRef> = c.iter().copied().filter(|q| self.has_kind_twin(*q)).collect();
                    if !twins.is_empty() {
                        c = twins;
                    }
                }
                if !c.is_empty() {
                    let q = c[idx(sel, c.len())];
                    // inherited member names are taken
                    let m = Model { files: self.files.clone(), start: 0, wsdl: None };
                    if let CompKind::Complex(bb) = &m.comp(q).kind {
                        for f in crate::expect::body_fields(&m, q.file, bb, 0) {
                            used.insert(f.rust.trim_start_matches("r#").to_string());
                        }
                    }
                    self.stats.feat("extension");
                    if q.file != file {
                        self.stats.feat("extension.cross-file");
                    }
                    base = Some(q);
                }
            } else {
                self.stats.mask("extension");
            }
        }
        let mut salt = rank * 5;
        let mut parts: Vec<Particle> = b.parts.iter().filter_map(|p| self.particle(file, limit, p, &mut used, &mut salt, 0, false)).collect();
        if self.p.kind_mix && self.p.elem_ref && self.p.ref_to_typed_elem && rank % 2 == 1 {
            // one more member: a reference to an element that shares its name with a type
            let c: Vec<QRef> = self.candidates(file, limit, &[2, 3], false).into_iter().filter(|q| self.has_kind_twin(*q)).collect();
            let has = parts.iter().any(|p| matches!(p, Particle::Ref { to, .. } if c.contains(to)));
            if !c.is_empty() && !has {
                let q = c[rank % c.len()];
                if used.insert(self.files[q.file].comps[q.comp].name.snake()) {
                    self.stats.feat("particle.ref");
                    parts.push(Particle::Ref { to: q, occ: if rank % 2 == 0 { Occ { min: Some(0), max: MaxOcc::Unbounded } } else { Occ::ONE } });
                }
            }
        }
        if base.is_some() && rank % 3 == 0 && self.p.choice {
            // keep only a choice, if there is one: the extension's content is then a single choice
            if let Some(c) = parts.iter().find(|p| matches!(p, Particle::Choice { .. })).cloned() {
                parts = vec![c];
            }
        }
        let mut attrs = vec![];
        if self.p.attributes && (base.is_none() || self.p.ext_attrs) {
            if self.p.xml_lang != 0 && rank % 3 == 0 && !self.taken.contains("lang") && used.insert("lang".to_string()) {
                self.stats.feat("attribute.ref-xml-lang");
                attrs.push(Attr { name: Name::raw("lang"), ty: TypeRef::Builtin("string".into()), use_: [AttrUse::Absent, AttrUse::Optional, AttrUse::Required][rank / 3 % if self.p.xml_lang == 2 { 2 } else { 3 }], xml_lang: true });
            }
            for a in &b.attrs {
                salt += 1;
                let name = self.member_name(&a.name, &mut used, salt);
                let ty = match self.resolve_ty(file, limit, &a.ty, true) {
                    TypeRef::Builtin(b) => TypeRef::Builtin(b),
                    t => t,
                };
                attrs.push(Attr { name, ty, use_: [AttrUse::Absent, AttrUse::Optional, AttrUse::Required][a.use_ as usize % 3], xml_lang: false });
                self.stats.feat("attribute");
                if base.is_some() {
                    self.stats.feat("extension.attribute");
                }
            }
        } else if !b.attrs.is_empty() {
            self.stats.mask(if self.p.attributes { "ext_attrs" } else { "attributes" });
        }
        let seq = if b.has_seq || !parts.is_empty() {
            let (m0, ub) = if self.p.seq_occurs { (b.seq_min0, b.seq_unbounded) } else { (false, false) };
            if m0 || ub {
                self.stats.feat("sequence.occurs");
            }
            Some(Seq { min0: m0, unbounded: ub, parts })
        } else {
            None
        };
        let direct_choice = base.is_some()
            && self.p.choice
            && rank % 3 == 0
            && seq.as_ref().is_some_and(|s| !s.min0 && !s.unbounded && s.parts.len() == 1 && matches!(s.parts[0], Particle::Choice { .. }));
        if direct_choice {
            self.stats.feat("extension.choice-directly-under-extension");
        }
        Body { base, seq, attrs, direct_choice }
    }
    fn facets(&mut self, base_builtin: Option<&str>, f: &RawFacets) -> Facets {
        if !self.p.facets {
            self.stats.mask("facets");
            return Facets::default();
        }
        let numeric = base_builtin.is_some_and(|b| matches!(crate::expect::prim_for(b), "i8" | "i16" | "i32" | "i64" | "u8" | "u16" | "u32" | "u64"));
        // 64-bit bases get bounds beyond 32 bits every third time (ten-digit identifiers and the like)
        let wide = base_builtin.is_some_and(|b| matches!(b, "long" | "unsignedLong")) && f.b % 2 == 0;
        let a = if wide { i64::from(f.a) * 1_000_000_007 } else { i64::from(f.a) };
        if wide {
            self.stats.feat("facets.bound-beyond-32-bits");
        }
        let mut out = Facets::default();
        if numeric {
            match f.kind % 5 {
                0 => {}
                1 => {
                    out.min_inclusive = Some(a.min(a + i64::from(f.b)));
                    out.max_inclusive = Some(a.max(a + i64::from(f.b)));
                }
                2 => out.min_exclusive = Some(a),
                3 => out.max_exclusive = Some(a),
                _ => out.min_inclusive = Some(a),
            }
            // unsigned bases: keep bounds inside the value space
            if base_builtin.is_some_and(|b| b.starts_with("unsigned") || b == "nonNegativeInteger" || b == "positiveInteger") {
                for v in [&mut out.min_inclusive, &mut out.max_inclusive, &mut out.min_exclusive, &mut out.max_exclusive] {
                    if let Some(x) = v {
                        *x = x.abs() + 1;
                    }
                }
                if let (Some(lo), Some(hi)) = (out.min_inclusive, out.max_inclusive) {
                    out.min_inclusive = Some(lo.min(hi));
                    out.max_inclusive = Some(lo.max(hi));
                }
            }
            if base_builtin.is_some_and(|b| b == "negativeInteger" || b == "nonPositiveInteger") {
                for v in [&mut out.min_inclusive, &mut out.max_inclusive, &mut out.min_exclusive, &mut out.max_exclusive] {
                    if let Some(x) = v {
                        *x = -(x.abs() + 2);
                    }
                }
                if let (Some(lo), Some(hi)) = (out.min_inclusive, out.max_inclusive) {
                    out.min_inclusive = Some(lo.min(hi));
                    out.max_inclusive = Some(lo.max(hi));
                }
            }
            // small carriers: keep the bounds inside the value space of the base
            if let Some(b) = base_builtin {
                let (lo, hi): (i64, i64) = match b {
                    "byte" => (-128, 127),
                    "unsignedByte" => (0, 255),
                    "long" | "unsignedLong" => (i64::MIN / 2, i64::MAX / 2),
                    _ => (i32::MIN as i64, i32::MAX as i64),
                };
                for v in [&mut out.min_inclusive, &mut out.max_inclusive, &mut out.min_exclusive, &mut out.max_exclusive] {
                    if let Some(x) = v {
                        *x = (*x).clamp(lo + 2, hi - 2);
                    }
                }
            }
        } else if base_builtin == Some("string") || base_builtin == Some("normalizedString") {
            match f.kind % 5 {
                0 => {}
                1 => out.max_length = Some(f.b.max(1)),
                2 => {
                    out.min_length = Some(f.b.min(4));
                    out.max_length = Some(f.b.min(4) + 6);
                }
                3 => out.enumeration = f.en.clone(),
                _ => out.length = Some(f.b.clamp(1, 8)),
            }
        }
        if !out.is_empty() {
            self.stats.feat("facets");
        }
        out
    }
}

pub fn build(raw: &RawModel, p: &Profile) -> (Model, BuildStats) {
    let n = raw.files.len().min(p.max_files.max(1));
    let mut b = B { p, stats: BuildStats::default(), files: vec![], slots: vec![], ns_counter: vec![0; n], taken: BTreeSet::new() };
    // file skeletons; imports point to higher indices only (acyclic), start file = 0
    for (i, rf) in raw.files.iter().take(n).enumerate() {
        let mut imports: Vec<usize> = vec![];
        if i + 1 < n {
            for sel in &rf.import_sel {
                let j = i + 1 + idx(*sel, n - i - 1);
                if !imports.contains(&j) {
                    imports.push(j);
                }
            }
            // every file must be reachable from the start file: chain fallback
            if i == 0 && imports.is_empty() {
                imports.push(1);
            }
        }
        let own_prefix = if p.default_ns && rf.own_prefix % 7 == 0 { String::new() } else { ["tns", "tns", "self_", "my", "s0"][rf.own_prefix as usize % 5].to_string() };
        if !p.default_ns && rf.own_prefix % 7 == 0 {
            b.stats.mask("default_ns");
        }
        let mut import_prefixes = vec![];
        for (k, _) in imports.iter().enumerate() {
            // with prefix reuse, different files may bind the same prefix to different namespaces
            let base = if p.prefix_reuse { rf.imp_prefix as usize } else { i * 3 };
            import_prefixes.push(IMPORT_PREFIXES[(base + k) % IMPORT_PREFIXES.len()].to_string());
        }
        if p.nested_xmlns && rf.imp_prefix % 3 == 0 && !imports.is_empty() {
            b.stats.feat("ns.import-prefixes-declared-on-component-nodes");
        }
        b.files.push(SFile {
            name: if i == 0 { "main.xsd".to_string() } else { format!("part{i}.xsd") },
            ns: if p.reserved_prefix_uris && raw.files[0].perm % 5 == 1 {
                // last segments that abbreviate to "xml": a prefix no other namespace may be bound to
                b.stats.feat("ns.abbreviates-to-xml");
                format!("http://example.org/{}/xml{}", ["schemas", "svc", "data"][i % 3], SEGS[i % SEGS.len()])
            } else if p.reserved_prefix_uris && raw.files[0].perm % 5 == 2 {
                // namespaces of other standards: under www.w3.org, sharing a prefix with a well-known
                // namespace, or ending in a slash - none of them is one of the well-known ones
                b.stats.feat("ns.standard-looking");
                match i % 3 {
                    0 => format!("http://www.w3.org/2005/08/{}", SEGS[i % SEGS.len()]),
                    1 => format!("http://www.w3.org/2001/XMLSchema-{}", SEGS[i % SEGS.len()]),
                    _ => format!("http://schemas.xmlsoap.org/{}/", SEGS[i % SEGS.len()]),
                }
            } else if p.colliding_abbrev && raw.files[0].perm % 2 == 0 {
                format!("http://example.org/{}/types", SEGS[i % SEGS.len()])
            } else {
                format!("http://example.org/{}/{}", ["schemas", "svc", "data"][i % 3], SEGS[i % SEGS.len()])
            },
            imports,
            comps: vec![],
            own_prefix,
            import_prefixes,
            xs_prefix: if rf.xs { "xs".into() } else { "xsd".into() },
            nested_decls: p.nested_xmlns && rf.imp_prefix % 3 == 0,
        });
    }
    // make sure files 1.. are reachable (chain i -> i+1 when nobody imports i+1)
    for j in 1..n {
        if !(0..j).any(|i| b.files[i].imports.contains(&j)) {
            let k = b.files[j - 1].imports.len();
            b.files[j - 1].imports.push(j);
            let pfx = IMPORT_PREFIXES[(j * 3 + k) % IMPORT_PREFIXES.len()].to_string();
            b.files[j - 1].import_prefixes.push(pfx);
        }
    }
    // distinct prefixes inside one file
    for f in &mut b.files {
        let mut seen: Vec<String> = vec![f.own_prefix.clone(), f.xs_prefix.clone()];
        for (k, pf) in f.import_prefixes.clone().iter().enumerate() {
            let mut cand = pf.clone();
            let mut t = 0;
            while seen.contains(&cand) {
                t += 1;
                cand = format!("{pf}{t}");
            }
            seen.push(cand.clone());
            f.import_prefixes[k] = cand;
        }
    }
    if b.files.len() > 1 {
        b.stats.feat("files>=2");
        if p.colliding_abbrev && raw.files[0].perm % 2 == 0 {
            b.stats.feat("ns.colliding-abbreviations");
        }
    }
    if b.files.iter().any(|f| f.own_prefix.is_empty()) {
        b.stats.feat("ns.default-namespace");
    }
    // components: files from last to first, so that imported components have lower rank
    for fi in (0..n).rev() {
        for rc in &raw.files[fi].comps {
            let limit = b.slots.len();
            let ci = b.files[fi].comps.len();
            let q = QRef { file: fi, comp: ci };
            let (comp, tag) = match rc {
                RawComp::Simple { name, base, facets, form, doc } => {
                    let nm = b.comp_name(fi, name, true);
                    let kind = match form {
                        1 if p.list_union => {
                            b.stats.feat("simple.list");
                            SimpleKind::List { item: b.resolve_ty(fi, limit, base, true) }
                        }
                        2 if p.list_union => {
                            b.stats.feat("simple.union");
                            SimpleKind::Union { members: vec![b.resolve_ty(fi, limit, base, true), TypeRef::Builtin("int".into())] }
                        }
                        _ => {
                            if *form != 0 {
                                b.stats.mask("list_union");
                            }
                            let mut bt = b.resolve_ty(fi, limit, base, true);
                            if p.restrict_bias && limit % 2 == 0 {
                                // derive from an earlier restricted type of this file when there is one
                                let c = b.candidates(fi, limit, &[0], true);
                                let c: Vec<QRef> = c.into_iter().filter(|q| matches!(&b.files[q.file].comps[q.comp].kind, CompKind::Simple(SimpleKind::Restriction { .. }))).collect();
                                if !c.is_empty() {
                                    bt = TypeRef::Named(c[limit % c.len()]);
                                }
                            }
                            if let TypeRef::Named(q) = &bt {
                                // (F45) a base in another namespace is flattened across namespaces too
                                if !p.derived_simple_foreign_use && q.file != fi {
                                    b.stats.mask("derived_simple_foreign_use");
                                    bt = TypeRef::Builtin("string".into());
                                }
                            }
                            if let TypeRef::Named(_) = bt {
                                if !p.derived_simple {
                                    b.stats.mask("derived_simple");
                                    bt = TypeRef::Builtin("string".into());
                                } else {
                                    b.stats.feat("simple.derived");
                                }
                            }
                            // the builtin at the root of the derivation chain decides which facets make sense
                            let bb: Option<String> = {
                                let mut cur = bt.clone();
                                let mut found = None;
                                for _ in 0..8 {
                                    match &cur {
                                        TypeRef::Builtin(x) => {
                                            found = Some(x.clone());
                                            break;
                                        }
                                        TypeRef::Named(q) => match &b.files[q.file].comps[q.comp].kind {
                                            CompKind::Simple(SimpleKind::Restriction { base, .. }) => cur = base.clone(),
                                            // list / union: carried as text
                                            _ => {
                                                found = Some("string".to_string());
                                                break;
                                            }
                                        },
                                    }
                                }
                                found
                            };
                            let f = b.facets(bb.as_deref(), facets);
                            SimpleKind::Restriction { base: bt, facets: f }
                        }
                    };
                    (Comp { name: nm, kind: CompKind::Simple(kind), doc: if p.docs { doc.clone() } else { None } }, 0u8)
                }
                RawComp::Complex { name, body, doc } => {
                    let nm = b.comp_name(fi, name, true);
                    let body = b.body(fi, limit, body, limit);
                    (Comp { name: nm, kind: CompKind::Complex(body), doc: if p.docs { doc.clone() } else { None } }, 1)
                }
                RawComp::ElemAnon { name, body, doc } => {
                    let nm = b.comp_name(fi, name, true);
                    let body = b.body(fi, limit, body, limit);
                    (Comp { name: nm, kind: CompKind::ElementAnon(body), doc: if p.docs { doc.clone() } else { None } }, 2)
                }
                RawComp::ElemTyped { name, ty, same_name } => {
                    let sel = if let RawTy::Named(s) = ty { *s } else { 0 };
                    // a global element of a builtin type (emitted as a type alias; members that
                    // refer to it take the builtin type)
                    if p.elem_of_builtin && sel % 5 == 0 && !*same_name {
                        b.stats.feat("element.of-builtin-type");
                        let nm = b.comp_name(fi, name, true);
                        let builtin = BUILTINS[(sel / 5) as usize % BUILTINS.len()].to_string();
                        b.files[fi].comps.push(Comp { name: nm, kind: CompKind::ElementTyped(TypeRef::Builtin(builtin)), doc: None });
                        b.slots.push(Slot { q, tag: 3 });
                        continue;
                    }
                    // otherwise typed global elements point at complex types
                    let c = b.candidates(fi, limit, &[1], false);
                    if c.is_empty() {
                        continue;
                    }
                    let t = c[idx(sel, c.len())];
                    let type_name = b.files[t.file].comps[t.comp].name.clone();
                    let already = b.files[fi].comps.iter().any(|c| matches!(c.kind, CompKind::ElementTyped(_) | CompKind::ElementAnon(_)) && c.name.pascal() == type_name.pascal());
                    let nm = if (*same_name || p.kind_mix) && p.same_name_elem_and_type && t.file == fi && !already {
                        b.stats.feat("element.same-name-as-type");
                        b.files[t.file].comps[t.comp].name.clone()
                    } else {
                        b.comp_name(fi, name, true)
                    };
                    (Comp { name: nm, kind: CompKind::ElementTyped(TypeRef::Named(t)), doc: None }, 3)
                }
            };
            b.files[fi].comps.push(comp);
            b.slots.push(Slot { q, tag });
        }
    }
    if p.docs && b.files.iter().any(|f| f.comps.iter().any(|c| c.doc.is_some())) {
        b.stats.feat("documentation");
    }
    let mut m = Model { files: b.files.clone(), start: 0, wsdl: None };
    // document order: permute each file's components (forward references)
    if p.forward_refs {
        for fi in 0..n {
            let k = m.files[fi].comps.len();
            if k < 2 {
                continue;
            }
            let rot = raw.files[fi].perm as usize % k;
            let rev = raw.files[fi].perm & 0x8000 != 0;
            let mut order: Vec<usize> = (0..k).collect();
            if p.kind_mix && raw.files[fi].perm % 3 == 0 {
                // everything is a forward reference
                order.reverse();
            } else if p.full_perm && k <= 8 {
                // Lehmer code: perm 0 is the construction order
                let fact: usize = (1..=k).product();
                let mut code = idx(raw.files[fi].perm, fact);
                let mut pool: Vec<usize> = (0..k).collect();
                order.clear();
                for i in (1..=k).rev() {
                    let f: usize = (1..i).product();
                    order.push(pool.remove(code / f));
                    code %= f;
                }
            } else {
                order.rotate_left(rot);
                if rev {
                    order.reverse();
                }
            }
            if order != (0..k).collect::<Vec<_>>() {
                b.stats.feat("order.forward-references");
            }
            permute(&mut m, fi, &order);
        }
    } else {
        b.stats.mask("forward_refs");
    }
    if p.collide {
        collide(&mut m, raw, &mut b.stats);
    }
    kind_order_features(&m, &mut b.stats);
    // WSDL
    let want_wsdl = match p.wsdl {
        0 => false,
        2 => true,
        _ => raw.wsdl.on % 3 == 0,
    };
    if want_wsdl {
        if let Some(w) = build_wsdl(&m, &raw.wsdl, p, &mut b.stats) {
            m.files[0].name = "service.wsdl".into();
            if m.files[0].own_prefix.is_empty() {
                m.files[0].own_prefix = "tns".into();
            }
            // schemas inside one wsdl:types share the prefixes bound on the definitions element (a
            // prefix re-bound on a nested schema element is outside the supported subset)
            for j in &w.inline {
                let k = m.files[0].imports.iter().position(|x| x == j).unwrap();
                m.files[*j].own_prefix = m.files[0].import_prefixes[k].clone();
                m.files[*j].xs_prefix = m.files[0].xs_prefix.clone();
            }
            m.wsdl = Some(w);
            b.stats.feat("wsdl");
        }
    }
    (m, b.stats)
}

/// reorder the components of one file and remap every reference to them
fn permute(m: &mut Model, fi: usize, order: &[usize]) {
    let old = m.files[fi].comps.clone();
    let mut new_index = vec![0usize; old.len()];
    for (new_pos, old_pos) in order.iter().enumerate() {
        new_index[*old_pos] = new_pos;
    }
    m.files[fi].comps = order.iter().map(|o| old[*o].clone()).collect();
    let fix = |q: &mut QRef| {
        if q.file == fi {
            q.comp = new_index[q.comp];
        }
    };
    fn fix_ty(t: &mut TypeRef, fix: &dyn Fn(&mut QRef)) {
        if let TypeRef::Named(q) = t {
            fix(q);
        }
    }
    fn fix_particle(p: &mut Particle, fix: &dyn Fn(&mut QRef)) {
        match p {
            Particle::Elem { ty, .. } => fix_ty(ty, fix),
            Particle::Ref { to, .. } => fix(to),
            Particle::Seq(s) => s.parts.iter_mut().for_each(|x| fix_particle(x, fix)),
            Particle::Choice { branches, .. } => branches.iter_mut().for_each(|x| fix_particle(x, fix)),
        }
    }
    fn fix_body(b: &mut Body, fix: &dyn Fn(&mut QRef)) {
        if let Some(q) = &mut b.base {
            fix(q);
        }
        if let Some(s) = &mut b.seq {
            s.parts.iter_mut().for_each(|x| fix_particle(x, fix));
        }
        for a in &mut b.attrs {
            fix_ty(&mut a.ty, fix);
        }
    }
    for f in &mut m.files {
        for c in &mut f.comps {
            match &mut c.kind {
                CompKind::Simple(SimpleKind::Restriction { base, .. }) => fix_ty(base, &fix),
                CompKind::Simple(SimpleKind::List { item }) => fix_ty(item, &fix),
                CompKind::Simple(SimpleKind::Union { members }) => members.iter_mut().for_each(|t| fix_ty(t, &fix)),
                CompKind::Complex(b) | CompKind::ElementAnon(b) => fix_body(b, &fix),
                CompKind::ElementTyped(t) => fix_ty(t, &fix),
            }
        }
    }
}

fn plain_name(first: usize, raw: &RawName, lower: bool) -> Name {
    let mut words = vec![FIRST[first % FIRST.len()].to_string()];
    for e in &raw.extra {
        words.push(EXTRA[*e as usize % EXTRA.len()].to_string());
    }
    Name { words, style: if lower { style_of(raw.style) } else { Style::UpperCamel } }
}

#[allow(clippy::too_many_arguments)]
fn mk_direction(messages: &mut Vec<Message>, stats: &mut BuildStats, p: &Profile, elems: &[QRef], name: &Name, dir: &str, parts: &Vec<(RawName, u16)>, headers: u8, named: bool) -> Direction {
        let mut ps = vec![];
        let mut used = BTreeSet::new();
        let max_parts = if !p.headers { 1 } else { 4 };
        for (k, (pn, sel)) in parts.iter().take(max_parts).enumerate() {
            let mut nm = plain_name(30 + k * 5 + pn.extra.len(), pn, true);
            if !used.insert(nm.snake()) {
                nm = Name::canonical(&["part", ["one", "two", "three", "four"][k % 4]], Style::LowerCamel);
                used.insert(nm.snake());
            }
            ps.push(Part { name: nm, element: elems[idx(*sel, elems.len())] });
        }
        let mi = messages.len();
        messages.push(Message { name: Name { words: name.words.iter().cloned().chain([dir.to_string()]).collect(), style: Style::UpperCamel }, parts: ps.clone() });
        let n_headers = if p.headers { (headers as usize).min(ps.len() - 1) } else { 0 };
        if headers > 0 && !p.headers {
            stats.mask("headers");
        }
        if n_headers > 0 {
            stats.feat("wsdl.header");
        }
        // without parts= the body carries the parts that are not bound to a header, and a
        // document-literal body has exactly one part (WS-I R2210): every other part is a header
        let all_others_are_headers = n_headers == ps.len() - 1;
        let body_named = if !all_others_are_headers { true } else { named || !p.body_without_parts };
        if !body_named {
            stats.feat("wsdl.body-without-parts");
            if n_headers > 0 {
                stats.feat("wsdl.body-without-parts.with-headers");
            }
        }
        Direction { message: mi, body_part: 0, body_named, headers: (1..=n_headers).collect() }
    }

fn build_wsdl(m: &Model, rw: &RawWsdl, p: &Profile, stats: &mut BuildStats) -> Option<Wsdl> {
    // global elements usable as parts: anonymous-typed or typed with a complex type, in the start
    // file or a directly imported one
    let mut elems: Vec<QRef> = vec![];
    for fi in std::iter::once(0).chain(m.files[0].imports.iter().copied()) {
        for (ci, c) in m.files[fi].comps.iter().enumerate() {
            if matches!(c.kind, CompKind::ElementAnon(_) | CompKind::ElementTyped(TypeRef::Named(_))) {
                elems.push(QRef { file: fi, comp: ci });
            }
        }
    }
    if elems.is_empty() {
        return None;
    }
    let mut messages = vec![];
    let mut operations = vec![];
    for (oi, op) in rw.ops.iter().enumerate() {
        let lower = op.lower && p.lower_case_ops;
        if op.lower && !p.lower_case_ops {
            stats.mask("lower_case_ops");
        }
        let mut name = plain_name(20 + oi * 3, &op.name, lower);
        if name.style == Style::Snake && !op.name.extra.is_empty() {
            // a name that is snake_case already, with one-letter words: get_x_y_info stays as it is
            name.words.insert(1, "x".into());
            name.words.insert(2, "y".into());
            stats.feat("wsdl.op-name-with-one-letter-words");
        }
        let input = mk_direction(&mut messages, stats, p, &elems, &name, "request", &op.in_parts, op.in_headers, op.in_named);
        let output = match &op.out_parts {
            Some(parts) => Some(mk_direction(&mut messages, stats, p, &elems, &name, "response", parts, op.out_headers, op.out_named)),
            None => {
                if p.one_way {
                    stats.feat("wsdl.one-way");
                    None
                } else {
                    stats.mask("one_way");
                    Some(mk_direction(&mut messages, stats, p, &elems, &name, "response", &op.in_parts, 0, true))
                }
            }
        };
        let soap_action = match op.action {
            0 => None,
            1 => Some(String::new()),
            _ => Some(format!("http://example.org/action/{}", name.xml())),
        };
        if !name.words.is_empty() && name.style != Style::UpperCamel {
            stats.feat("wsdl.op-name-not-pascal");
        }
        operations.push(Operation { name, input, output, soap_action });
    }
    if operations.len() >= 2 {
        stats.feat("wsdl.ops>=2");
    }
    if messages.iter().any(|msg| msg.parts.iter().any(|pt| pt.element.file != 0)) {
        stats.feat("wsdl.part-in-imported-namespace");
    }
    // files that only the start file imports, and that import nothing themselves, may live inside
    // wsdl:types as schemas of their own
    let inline: Vec<usize> = if p.wsdl_shapes && rw.addr / 21 % 2 == 0 {
        m.files[0].imports.iter().copied().filter(|j| m.files[*j].imports.is_empty() && !m.files.iter().enumerate().any(|(k, f)| k != 0 && f.imports.contains(j)) && m.files[*j].ns != m.files[0].ns).collect()
    } else {
        vec![]
    };
    if !inline.is_empty() {
        stats.feat("wsdl.several-inline-schemas");
    }
    let own_ns = if p.wsdl_shapes && rw.addr / 7 % 3 == 0 {
        stats.feat("wsdl.own-namespace-differs-from-schema");
        Some(format!("{}/service", m.files[0].ns.trim_end_matches('/')))
    } else {
        None
    };
    Some(Wsdl {
        own_ns,
        inline,
        messages,
        operations,
        port_type: Name::canonical(&["main", "port", "type"], Style::UpperCamel),
        binding: Name::canonical(&["main", "binding"], Style::UpperCamel),
        service: plain_name(45, &rw.service, false),
        address: {
            let base = format!("http://localhost:{}", 20000 + (rw.addr % 20000));
            let w = EXTRA[rw.addr as usize % EXTRA.len()];
            match rw.addr % 7 {
                0 => format!("{base}/svc/{w}/"),
                1 => base.clone(),
                2 => format!("{base}/"),
                3 => format!("{base}/svc/{w}?wsdl=1&x=y"),
                4 => format!("{base}/a%20b/{w}"),
                5 => format!("https://example.org:8443/svc/{w}/"),
                _ => format!("{base}/svc/{w}"),
            }
        },
    })
}

/// C09 profile: make local names collide across namespaces and across kinds. References are by
/// index, so they keep denoting the same components; only the spelling of names changes.
fn collide(m: &mut Model, raw: &RawModel, stats: &mut BuildStats) {
    let nfiles = m.files.len();
    let sel = raw.files.iter().map(|f| f.perm as usize).sum::<usize>();
    // named types only: renaming a global element would also rename the members that `ref` it and
    // could make two members of one struct share a name, which is outside the subset
    let struct_like = |c: &Comp| matches!(c.kind, CompKind::Complex(_) | CompKind::Simple(_));
    // (1) a struct-producing component of file j takes the name of one of file i (another namespace)
    for j in 1..nfiles {
        let i = (sel + j) % j; // some earlier file
        if m.files[i].ns == m.files[j].ns {
            continue;
        }
        // (names like those of builtins stay where they are: a file that writes unprefixed QNames must
        // not get one)
        let builtin_like = |n: &Name| BUILTINS.iter().any(|b| b.eq_ignore_ascii_case(&n.words.concat()));
        let donors: Vec<Name> = m.files[i].comps.iter().filter(|c| struct_like(c) && !builtin_like(&c.name)).map(|c| c.name.clone()).collect();
        if donors.is_empty() {
            continue;
        }
        let taken: Vec<String> = m.files[j].comps.iter().map(|c| c.name.pascal()).collect();
        for (k, c) in m.files[j].comps.iter_mut().enumerate() {
            if !struct_like(c) {
                continue;
            }
            let d = &donors[(sel + k) % donors.len()];
            if !taken.contains(&d.pascal()) && (sel + k) % 2 == 0 {
                c.name = d.clone();
                stats.feat("collision.same-local-name-in-two-namespaces");
                break;
            }
        }
    }
    // (1b) the most treacherous case: a file refers to a type of another namespace (base or member
    // type) and a type of its OWN namespace carries the same local name
    {
        let snapshot = m.clone();
        for fj in 0..nfiles {
            let mut targets: Vec<QRef> = vec![];
            fn collect_ty(t: &TypeRef, out: &mut Vec<QRef>) {
                if let TypeRef::Named(q) = t {
                    out.push(*q);
                }
            }
            fn collect_parts(ps: &[Particle], out: &mut Vec<QRef>) {
                for p in ps {
                    match p {
                        Particle::Elem { ty, .. } => collect_ty(ty, out),
                        Particle::Seq(s) => collect_parts(&s.parts, out),
                        Particle::Choice { branches, .. } => collect_parts(branches, out),
                        Particle::Ref { .. } => {}
                    }
                }
            }
            for c in &snapshot.files[fj].comps {
                if let CompKind::Complex(b) | CompKind::ElementAnon(b) = &c.kind {
                    if let Some(q) = b.base {
                        targets.push(q);
                    }
                    if let Some(s) = &b.seq {
                        collect_parts(&s.parts, &mut targets);
                    }
                }
            }
            // also what the referenced foreign types refer to themselves (their bases and member
            // types are copied into this file's structs by inheritance)
            for _ in 0..2 {
                for q in targets.clone() {
                    if let CompKind::Complex(b) | CompKind::ElementAnon(b) = &snapshot.comp(q).kind {
                        if let Some(bq) = b.base {
                            targets.push(bq);
                        }
                        if let Some(s) = &b.seq {
                            collect_parts(&s.parts, &mut targets);
                        }
                    }
                }
            }
            targets.sort();
            targets.dedup();
            targets.retain(|q| q.file != fj && snapshot.files[q.file].ns != snapshot.files[fj].ns && struct_like(snapshot.comp(*q)));
            // names like those of builtins stay where they are (see above)
            targets.retain(|q| !BUILTINS.iter().any(|b| b.eq_ignore_ascii_case(&snapshot.comp(*q).name.words.concat())));
            let Some(t) = targets.get(sel % targets.len().max(1)).copied() else { continue };
            let tname = snapshot.comp(t).name.clone();
            let taken: Vec<String> = m.files[fj].comps.iter().map(|c| c.name.pascal()).collect();
            if taken.contains(&tname.pascal()) {
                continue;
            }
            // rename a type of file fj that is itself complex (so it has members of its own)
            if let Some(c) = m.files[fj].comps.iter_mut().filter(|c| matches!(c.kind, CompKind::Complex(_))).nth(sel % 2) {
                c.name = tname;
                stats.feat("collision.own-type-named-like-referenced-foreign-type");
            }
            // and a second one, when there is another foreign name in play
            if let Some(t2) = targets.get((sel + 1) % targets.len().max(1)).copied().filter(|t2| *t2 != t) {
                let n2 = snapshot.comp(t2).name.clone();
                let taken: Vec<String> = m.files[fj].comps.iter().map(|c| c.name.pascal()).collect();
                if !taken.contains(&n2.pascal()) {
                    if let Some(c) = m.files[fj].comps.iter_mut().filter(|c| matches!(c.kind, CompKind::Complex(_) | CompKind::Simple(_))).nth((sel + 1) % 3) {
                        c.name = n2;
                    }
                }
            }
        }
    }
    // (2) a local element / attribute is named like a global component of the same or another namespace
    let globals: Vec<Name> = m.files.iter().flat_map(|f| f.comps.iter().map(|c| c.name.clone())).collect();
    if globals.is_empty() {
        return;
    }
    fn rename_first(parts: &mut [Particle], to: &Name, taken: &[String]) -> bool {
        for p in parts.iter_mut() {
            match p {
                Particle::Elem { name, .. } => {
                    if !taken.contains(&to.snake()) {
                        *name = to.clone();
                        return true;
                    }
                    return false;
                }
                Particle::Seq(s) => {
                    if rename_first(&mut s.parts, to, taken) {
                        return true;
                    }
                }
                Particle::Choice { branches, .. } => {
                    if rename_first(branches, to, taken) {
                        return true;
                    }
                }
                Particle::Ref { .. } => {}
            }
        }
        false
    }
    let snapshot = m.clone();
    for fi in 0..nfiles {
        for ci in 0..m.files[fi].comps.len() {
            if (sel + fi * 5 + ci) % 3 != 0 {
                continue;
            }
            let to = globals[(sel + fi + ci * 7) % globals.len()].clone();
            let taken: Vec<String> = match &snapshot.files[fi].comps[ci].kind {
                CompKind::Complex(b) | CompKind::ElementAnon(b) => crate::expect::body_fields(&snapshot, fi, b, 0).iter().map(|f| f.rust.trim_start_matches("r#").to_string()).collect(),
                _ => continue,
            };
            // derived types inherit members: keep the renamed member out of every descendant's way by
            // only renaming in types nobody extends
            let extended = snapshot.files.iter().any(|f| f.comps.iter().any(|c| matches!(&c.kind, CompKind::Complex(b) | CompKind::ElementAnon(b) if b.base == Some(QRef { file: fi, comp: ci }))));
            if extended {
                continue;
            }
            if let CompKind::Complex(b) | CompKind::ElementAnon(b) = &mut m.files[fi].comps[ci].kind {
                if let Some(s) = &mut b.seq {
                    if rename_first(&mut s.parts, &to, &taken) {
                        stats.feat("collision.member-named-like-global-component");
                        continue;
                    }
                }
                if let Some(a) = b.attrs.iter_mut().find(|a| !a.xml_lang) {
                    if !taken.contains(&to.snake()) {
                        a.name = to.clone();
                        stats.feat("collision.attribute-named-like-global-component");
                    }
                }
            }
        }
    }
}

/// order-and-kind shapes worth counting: an element and a type of one name, where the element is
/// referenced (ref=) and the type extended (base=) before either is declared
fn kind_order_features(m: &Model, stats: &mut BuildStats) {
    fn refs_of(ps: &[Particle], out: &mut Vec<QRef>) {
        for p in ps {
            match p {
                Particle::Ref { to, .. } => out.push(*to),
                Particle::Seq(s) => refs_of(&s.parts, out),
                Particle::Choice { branches, .. } => refs_of(branches, out),
                Particle::Elem { .. } => {}
            }
        }
    }
    for (fi, f) in m.files.iter().enumerate() {
        let mut first_ref: std::collections::BTreeMap<usize, usize> = Default::default();
        let mut first_ext: std::collections::BTreeMap<usize, usize> = Default::default();
        for (ci, c) in f.comps.iter().enumerate() {
            if let CompKind::Complex(b) | CompKind::ElementAnon(b) = &c.kind {
                let mut r = vec![];
                if let Some(s) = &b.seq {
                    refs_of(&s.parts, &mut r);
                }
                for q in r.into_iter().filter(|q| q.file == fi) {
                    first_ref.entry(q.comp).or_insert(ci);
                }
                if let Some(q) = b.base.filter(|q| q.file == fi) {
                    first_ext.entry(q.comp).or_insert(ci);
                }
            }
        }
        for (ei, e) in f.comps.iter().enumerate() {
            if !matches!(e.kind, CompKind::ElementTyped(_) | CompKind::ElementAnon(_)) {
                continue;
            }
            for (ti, t) in f.comps.iter().enumerate() {
                if !matches!(t.kind, CompKind::Complex(_)) || t.name.xml() != e.name.xml() {
                    continue;
                }
                stats.feat("kind-twin");
                if let (Some(r), Some(x)) = (first_ref.get(&ei), first_ext.get(&ti)) {
                    stats.feat("kind-twin.referenced-and-extended");
                    if *r < ei && *x < ti {
                        stats.feat("kind-twin.both-forward");
                        if r < x {
                            stats.feat("kind-twin.ref-then-extension-then-declarations");
                        }
                    }
                }
            }
        }
    }
}
