//! C19 — MultiRef<T> is transparent on the wire and for restriction checks.
//!
//! Hand-written probe types (bare and wrapped twins with identical XML names), proptest
//! values, and byte/Debug/verdict equality between the bare and the wrapped use.

use crate::c06::R;
use crate::common::*;
use crate::hc::error::SoapResult;
use crate::hc::multi_ref::MultiRef;
use crate::hc::restrictions::{CheckRestrictions, Restrictions};
use proptest::prelude::*;
use proptest::strategy::ValueTree;
use serde_json::json;
use std::rc::Rc;
use std::sync::Arc;
use yaserde_derive::{YaDeserialize, YaSerialize};

// ---- probe types -----------------------------------------------------------------------------

#[derive(Debug, Default, Clone, PartialEq, YaSerialize, YaDeserialize, serde::Serialize, serde::Deserialize)]
#[yaserde(rename = "txt")]
pub struct Text {
    #[yaserde(text = true)]
    pub value: String,
}
impl CheckRestrictions for Text {
    fn check_restrictions(&self, r: Option<Rc<Restrictions>>) -> SoapResult<()> {
        self.value.check_restrictions(r)
    }
}

#[derive(Debug, Default, Clone, PartialEq, YaSerialize, YaDeserialize, serde::Serialize, serde::Deserialize)]
#[yaserde(prefix = "p", namespaces = {"p" = "urn:probe"}, rename = "attrs")]
pub struct Attrs {
    #[yaserde(attribute = true, rename = "id")]
    pub id: i64,
    #[yaserde(attribute = true, rename = "label")]
    pub label: Option<String>,
    #[yaserde(prefix = "p", rename = "note")]
    pub note: String,
}
impl CheckRestrictions for Attrs {
    fn check_restrictions(&self, r: Option<Rc<Restrictions>>) -> SoapResult<()> {
        self.id.check_restrictions(r.clone())?;
        self.label.check_restrictions(r.clone())?;
        self.note.check_restrictions(r)
    }
}

/// A restricted simple type in the shape the generator emits (own facets, ignores the passed set).
#[derive(Debug, Default, Clone, PartialEq, YaSerialize, YaDeserialize, serde::Serialize, serde::Deserialize)]
#[yaserde(prefix = "p", namespaces = {"p" = "urn:probe"}, rename = "level")]
pub struct Level {
    #[yaserde(text = true)]
    pub value: String,
}
impl CheckRestrictions for Level {
    fn check_restrictions(&self, _r: Option<Rc<Restrictions>>) -> SoapResult<()> {
        let r = Some(Rc::new(Restrictions { min_inclusive: Some(1), max_inclusive: Some(9), ..Default::default() }));
        self.value.check_restrictions(r)
    }
}

#[derive(Debug, Default, Clone, PartialEq, YaSerialize, YaDeserialize, serde::Serialize, serde::Deserialize)]
#[yaserde(prefix = "p", namespaces = {"p" = "urn:probe"}, rename = "holder")]
pub struct HolderBare {
    #[yaserde(prefix = "p", rename = "first")]
    pub first: Attrs,
    #[yaserde(prefix = "p", rename = "maybe")]
    pub maybe: Option<Attrs>,
    #[yaserde(prefix = "p", rename = "many")]
    pub many: Vec<Attrs>,
    #[yaserde(prefix = "p", rename = "lvl")]
    pub lvl: Level,
    #[yaserde(prefix = "p", rename = "count")]
    pub count: Option<u64>,
    #[yaserde(attribute = true, rename = "flag")]
    pub flag: bool,
}
impl CheckRestrictions for HolderBare {
    fn check_restrictions(&self, r: Option<Rc<Restrictions>>) -> SoapResult<()> {
        self.first.check_restrictions(r.clone())?;
        self.maybe.check_restrictions(r.clone())?;
        self.many.check_restrictions(r.clone())?;
        self.lvl.check_restrictions(r.clone())?;
        self.count.check_restrictions(r.clone())?;
        self.flag.check_restrictions(r)
    }
}

#[derive(Debug, Default, Clone, YaSerialize, YaDeserialize)]
#[yaserde(prefix = "p", namespaces = {"p" = "urn:probe"}, rename = "holder")]
pub struct HolderRef {
    #[yaserde(prefix = "p", rename = "first")]
    pub first: MultiRef<Attrs>,
    #[yaserde(prefix = "p", rename = "maybe")]
    pub maybe: Option<MultiRef<Attrs>>,
    #[yaserde(prefix = "p", rename = "many")]
    pub many: Vec<MultiRef<Attrs>>,
    #[yaserde(prefix = "p", rename = "lvl")]
    pub lvl: MultiRef<Level>,
    #[yaserde(prefix = "p", rename = "count")]
    pub count: Option<u64>,
    #[yaserde(attribute = true, rename = "flag")]
    pub flag: bool,
}
impl CheckRestrictions for HolderRef {
    fn check_restrictions(&self, r: Option<Rc<Restrictions>>) -> SoapResult<()> {
        self.first.check_restrictions(r.clone())?;
        self.maybe.check_restrictions(r.clone())?;
        self.many.check_restrictions(r.clone())?;
        self.lvl.check_restrictions(r.clone())?;
        self.count.check_restrictions(r.clone())?;
        self.flag.check_restrictions(r)
    }
}

/// Flattened attribute group: the parent merges the child's attributes through
/// `serialize_attributes`, which the wrapper has to forward.
#[derive(Debug, Default, Clone, PartialEq, YaSerialize, YaDeserialize, serde::Serialize, serde::Deserialize)]
pub struct Group {
    #[yaserde(attribute = true, rename = "ga")]
    pub ga: String,
    #[yaserde(attribute = true, rename = "gb")]
    pub gb: i32,
}
#[derive(Debug, Default, Clone, PartialEq, YaSerialize, YaDeserialize, serde::Serialize, serde::Deserialize)]
#[yaserde(rename = "flat")]
pub struct FlatBare {
    #[yaserde(flatten = true)]
    pub group: Group,
    #[yaserde(rename = "tail")]
    pub tail: String,
}
#[derive(Debug, Default, Clone, YaSerialize, YaDeserialize)]
#[yaserde(rename = "flat")]
pub struct FlatRef {
    #[yaserde(flatten = true)]
    pub group: MultiRef<Group>,
    #[yaserde(rename = "tail")]
    pub tail: String,
}

/// Self-referential shape (what MultiRef exists for). yaserde has no Box support, so the bare
/// comparator is the same shape unrolled two levels with identical XML names.
#[derive(Debug, Default, Clone, YaSerialize, YaDeserialize)]
#[yaserde(rename = "node")]
pub struct NodeRef {
    #[yaserde(rename = "name")]
    pub name: String,
    #[yaserde(rename = "kid")]
    pub kid: Option<MultiRef<NodeRef>>,
    #[yaserde(rename = "sib")]
    pub sib: Vec<MultiRef<LeafNode>>,
}
#[derive(Debug, Default, Clone, PartialEq, YaSerialize, YaDeserialize, serde::Serialize, serde::Deserialize)]
#[yaserde(rename = "sib")]
pub struct LeafNode {
    #[yaserde(rename = "tag")]
    pub tag: String,
}
#[derive(Debug, Default, Clone, PartialEq, YaSerialize, YaDeserialize, serde::Serialize, serde::Deserialize)]
#[yaserde(rename = "node")]
pub struct Node0 {
    #[yaserde(rename = "name")]
    pub name: String,
    #[yaserde(rename = "kid")]
    pub kid: Option<Node1>,
    #[yaserde(rename = "sib")]
    pub sib: Vec<LeafNode>,
}
#[derive(Debug, Default, Clone, PartialEq, YaSerialize, YaDeserialize, serde::Serialize, serde::Deserialize)]
#[yaserde(rename = "kid")]
pub struct Node1 {
    #[yaserde(rename = "name")]
    pub name: String,
    #[yaserde(rename = "kid")]
    pub kid: Option<Node2>,
    #[yaserde(rename = "sib")]
    pub sib: Vec<LeafNode>,
}
#[derive(Debug, Default, Clone, PartialEq, YaSerialize, YaDeserialize, serde::Serialize, serde::Deserialize)]
#[yaserde(rename = "kid")]
pub struct Node2 {
    #[yaserde(rename = "name")]
    pub name: String,
    /// never present; keeps the Debug shape of the unrolled twin equal to the recursive type's
    #[yaserde(rename = "kid")]
    pub kid: Option<LeafNode>,
    #[yaserde(rename = "sib")]
    pub sib: Vec<LeafNode>,
}

fn to_ref(n: &Node0) -> NodeRef {
    NodeRef {
        name: n.name.clone(),
        sib: n.sib.iter().cloned().map(MultiRef::new).collect(),
        kid: n.kid.as_ref().map(|k| {
            MultiRef::new(NodeRef {
                name: k.name.clone(),
                sib: k.sib.iter().cloned().map(MultiRef::new).collect(),
                kid: k.kid.as_ref().map(|k2| {
                    MultiRef::new(NodeRef { name: k2.name.clone(), sib: k2.sib.iter().cloned().map(MultiRef::new).collect(), kid: None })
                }),
            })
        }),
    }
}

// ---- generators ------------------------------------------------------------------------------

fn arb_s() -> impl Strategy<Value = String> {
    prop_oneof![
        3 => "[a-zA-Z0-9 ]{0,10}",
        2 => "[a-z<>&\"'é😀]{1,8}",
        2 => (-12i32..=12).prop_map(|v| v.to_string()),
        1 => Just(String::new()),
    ]
}

fn arb_attrs() -> impl Strategy<Value = Attrs> {
    (any::<i64>(), proptest::option::of(arb_s()), arb_s()).prop_map(|(id, label, note)| Attrs { id, label, note })
}

fn arb_holder() -> impl Strategy<Value = HolderBare> {
    (
        arb_attrs(),
        proptest::option::of(arb_attrs()),
        proptest::collection::vec(arb_attrs(), 0..4),
        (-3i32..=12).prop_map(|v| Level { value: v.to_string() }),
        proptest::option::of(any::<u64>()),
        any::<bool>(),
    )
        .prop_map(|(first, maybe, many, lvl, count, flag)| HolderBare { first, maybe, many, lvl, count, flag })
}

fn arb_leafnodes() -> impl Strategy<Value = Vec<LeafNode>> {
    proptest::collection::vec("[a-z]{1,5}".prop_map(|tag| LeafNode { tag }), 0..3)
}

fn arb_node() -> impl Strategy<Value = Node0> {
    (
        "[a-z]{1,6}",
        arb_leafnodes(),
        proptest::option::of(("[a-z]{1,6}", arb_leafnodes(), proptest::option::of(("[a-z]{1,6}", arb_leafnodes())))),
    )
        .prop_map(|(name, sib, kid)| Node0 {
            name,
            sib,
            kid: kid.map(|(n1, s1, k2)| Node1 { name: n1, sib: s1, kid: k2.map(|(n2, s2)| Node2 { name: n2, kid: None, sib: s2 }) }),
        })
}

fn arb_r() -> impl Strategy<Value = Option<R>> {
    proptest::option::weighted(
        0.8,
        (
            proptest::option::weighted(0.4, -10i32..=10),
            proptest::option::weighted(0.4, -10i32..=10),
            proptest::option::weighted(0.3, 0usize..6),
            proptest::option::weighted(0.3, 0usize..10),
            proptest::option::weighted(0.2, proptest::collection::vec(arb_s(), 0..3)),
        )
            .prop_map(|(a, b, c, d, e)| R { min_inclusive: a.map(i64::from), max_inclusive: b.map(i64::from), min_length: c, max_length: d, enumeration: e, ..R::default() }),
    )
}

// ---- oracle ----------------------------------------------------------------------------------

fn ser<T: yaserde::YaSerialize>(v: &T) -> Result<String, String> {
    yaserde::ser::to_string(v)
}

struct Fail {
    sig: String,
    detail: String,
}

fn cmp_ser(what: &str, bare: Result<String, String>, wrapped: Result<String, String>, out: &mut Vec<Fail>) -> Option<String> {
    if bare != wrapped {
        out.push(Fail { sig: format!("{what}:serialization-differs"), detail: format!("bare={bare:?} wrapped={wrapped:?}") });
    }
    bare.ok()
}

/// Debug text with the twin type names made equal.
fn norm(d: &str) -> String {
    d.replace("HolderRef", "Holder")
        .replace("HolderBare", "Holder")
        .replace("FlatRef", "Flat")
        .replace("FlatBare", "Flat")
        .replace("NodeRef", "Node")
        .replace("Node0", "Node")
        .replace("Node1", "Node")
        .replace("Node2", "Node")
}

fn cmp_de<B, W>(what: &str, xml: &str, out: &mut Vec<Fail>)
where
    B: yaserde::YaDeserialize + std::fmt::Debug,
    W: yaserde::YaDeserialize + std::fmt::Debug,
{
    if std::env::var_os("VH_TRACE").is_some() {
        eprintln!("de {what}: {xml}");
    }
    let b = yaserde::de::from_str::<B>(xml).map(|v| norm(&format!("{v:?}")));
    let w = yaserde::de::from_str::<W>(xml).map(|v| norm(&format!("{v:?}")));
    match (&b, &w) {
        (Ok(x), Ok(y)) if x == y => {}
        (Err(_), Err(_)) => {}
        _ => out.push(Fail { sig: format!("{what}:deserialization-differs"), detail: format!("xml={xml} bare={b:?} wrapped={w:?}") }),
    }
}

fn cmp_chk<B: CheckRestrictions, W: CheckRestrictions>(what: &str, b: &B, w: &W, r: &Option<R>, out: &mut Vec<Fail>) {
    // a short history of checks on the same values: without restrictions, with the generated set,
    // without again, with the set again - the verdict of a check must not depend on earlier ones
    for (k, with) in [false, true, false, true].into_iter().enumerate() {
        let set = || if with { r.as_ref().map(R::to_real) } else { None };
        let rb = b.check_restrictions(set()).is_ok();
        let rw = w.check_restrictions(set()).is_ok();
        if rb != rw {
            let when = if k < 2 { "" } else { ":after-earlier-checks" };
            out.push(Fail { sig: format!("{what}:restriction-verdict-differs{when}"), detail: format!("check #{k} (restrictions {}): bare ok={rb} wrapped ok={rw} r={r:?}", if with { "given" } else { "none" }) });
            return;
        }
    }
}

/// XML variants to feed the deserializers: the document itself plus damaged ones.
fn xml_variants(xml: &str, cut: usize) -> Vec<String> {
    let mut v = vec![xml.to_string()];
    // (a truncated document is not used: yaserde 0.12 spins forever on premature end of input,
    // for bare and wrapped types alike)
    let c = cut % (xml.len().max(1));
    if xml.is_char_boundary(c) && xml[c..].starts_with("</") {
        // damage one closing tag name instead
        v.push(format!("{}</zz{}", &xml[..c], &xml[c + 2..]));
    }
    v.push(xml.replace("holder", "other").replace("<txt", "<other").replace("</txt", "</other"));
    v.push(xml.replace("id=\"", "id=\"x"));
    v
}

#[derive(Debug, Clone, serde::Serialize, serde::Deserialize)]
struct Case {
    holder: HolderBare,
    text: String,
    node: Node0,
    group: (String, i32, String),
    r: Option<R>,
    cut: usize,
    prim: i64,
}

fn arb_case() -> impl Strategy<Value = Case> {
    (arb_holder(), arb_s(), arb_node(), (arb_s(), any::<i32>(), arb_s()), arb_r(), any::<usize>(), any::<i64>())
        .prop_map(|(holder, text, node, group, r, cut, prim)| Case { holder, text, node, group, r, cut, prim })
}

fn holder_ref(h: &HolderBare) -> HolderRef {
    HolderRef {
        first: MultiRef::new(h.first.clone()),
        maybe: h.maybe.clone().map(MultiRef::new),
        many: h.many.iter().cloned().map(MultiRef::new).collect(),
        lvl: MultiRef::new(h.lvl.clone()),
        count: h.count,
        flag: h.flag,
    }
}

fn judge(c: &Case) -> Vec<Fail> {
    let mut f = vec![];
    // root position
    let t = Text { value: c.text.clone() };
    if let Some(x) = cmp_ser("root-text", ser(&t), ser(&MultiRef::new(t.clone())), &mut f) {
        for v in xml_variants(&x, c.cut) {
            cmp_de::<Text, MultiRef<Text>>("root-text", &v, &mut f);
        }
    }
    cmp_chk("root-text", &t, &MultiRef::new(t.clone()), &c.r, &mut f);
    let a = c.holder.first.clone();
    if let Some(x) = cmp_ser("root-attrs", ser(&a), ser(&MultiRef::new(a.clone())), &mut f) {
        for v in xml_variants(&x, c.cut) {
            cmp_de::<Attrs, MultiRef<Attrs>>("root-attrs", &v, &mut f);
        }
    }
    cmp_chk("root-attrs", &a, &MultiRef::new(a.clone()), &c.r, &mut f);
    // primitives
    cmp_chk("prim-i64", &c.prim, &MultiRef::new(c.prim), &c.r, &mut f);
    cmp_chk("prim-string", &c.text, &MultiRef::new(c.text.clone()), &c.r, &mut f);
    cmp_chk("vec-of-ref", &vec![c.text.clone()], &vec![MultiRef::new(c.text.clone())], &c.r, &mut f);
    // field position
    let hb = c.holder.clone();
    let hr = holder_ref(&hb);
    if let Some(x) = cmp_ser("field", ser(&hb), ser(&hr), &mut f) {
        for v in xml_variants(&x, c.cut) {
            cmp_de::<HolderBare, HolderRef>("field", &v, &mut f);
        }
    }
    cmp_chk("field", &hb, &hr, &c.r, &mut f);
    // wrapped root of a holder that itself has wrapped fields
    let _ = cmp_ser("nested-wrap", ser(&hb), ser(&MultiRef::new(MultiRef::new(hr.clone()))), &mut f);
    // flattened attribute group
    let fb = FlatBare { group: Group { ga: c.group.0.clone(), gb: c.group.1 }, tail: c.group.2.clone() };
    let fr = FlatRef { group: MultiRef::new(fb.group.clone()), tail: fb.tail.clone() };
    if let Some(x) = cmp_ser("flatten", ser(&fb), ser(&fr), &mut f) {
        cmp_de::<FlatBare, FlatRef>("flatten", &x, &mut f);
    }
    // self-referential
    let nr = to_ref(&c.node);
    if let Some(x) = cmp_ser("recursive", ser(&c.node), ser(&nr), &mut f) {
        // yaserde 0.12 spins forever when a struct type is deserialized under an element that
        // contains the same type again (reproduced with a trivial Box wrapper written by hand,
        // i.e. not MultiRef's doing), so only childless documents are read back.
        if c.node.kid.is_none() {
            cmp_de::<Node0, NodeRef>("recursive", &x, &mut f);
        }
    }
    // Default, Debug, Clone, Deref
    if format!("{:?}", MultiRef::<HolderBare>::default()) != format!("{:?}", HolderBare::default()) {
        f.push(Fail { sig: "default-differs".into(), detail: String::new() });
    }
    if format!("{:?}", MultiRef::new(hb.clone())) != format!("{hb:?}") {
        f.push(Fail { sig: "debug-differs".into(), detail: String::new() });
    }
    let m = MultiRef::new(hb.clone());
    let m2 = m.clone();
    // (written against the value, not against Arc, so that a change of the pointer type is judged
    // by C18 and does not merely stop this harness from compiling)
    if !std::ptr::eq(&**m as *const HolderBare, &**m2 as *const HolderBare) {
        f.push(Fail { sig: "clone-copies".into(), detail: "clone of a MultiRef does not share the value".into() });
    }
    if **m != hb {
        f.push(Fail { sig: "deref-differs".into(), detail: String::new() });
    }
    f
}

fn nontrivial(c: &Case) -> bool {
    c.holder.maybe.is_some() || !c.holder.many.is_empty() || c.node.kid.is_some()
}

pub fn run(tier: Tier) -> i32 {
    let findings = Findings::load();
    findings.print_fixed("C19");
    let mut ev = Evidence::new(
        "C19",
        tier,
        "exploration",
        "proptest-generated values of hand-written probe types (text-only, attributes, nested with Option/Vec members, restricted simple type with its own facets, flattened attribute group, self-referential node) used bare and wrapped in MultiRef at the root and as a field; compared: serialized bytes, Ok/Err + Debug of deserializing the serialized and damaged documents, check_restrictions verdicts over a short history of checks on the same value (no restrictions, the generated set, none, the set again), Default, Debug, clone sharing. Non-trivial: a value with an optional-present or repeated nested member or a recursive child; distinct by Debug of the case.",
    );
    ev.assume("probe types are written by hand in the harness with yaserde derive; the bare twin is the oracle, so yaserde quirks cancel out");
    let wd = Watchdog::start("C19", 120);
    let n = tier.pick(6_000, 100_000);
    let mut runner = crate::common::runner("C19");
    let strat = arb_case();
    let mut reported = std::collections::BTreeSet::new();
    for i in 0..n {
        wd.tick();
        let mut tree = strat.new_tree(&mut runner).unwrap();
        let c = tree.current();
        let key = format!("{c:?}");
        ev.case(&key, nontrivial(&c));
        if i < 2 {
            ev.sample(json!({"holder": format!("{:?}", c.holder), "restrictions": format!("{:?}", c.r), "xml": ser(&c.holder).unwrap_or_default()}));
        }
        if c.holder.maybe.is_some() {
            ev.class("holder.optional-present");
        }
        if c.holder.many.len() >= 2 {
            ev.class("holder.repeated>=2");
        }
        if c.node.kid.as_ref().is_some_and(|k| k.kid.is_some()) {
            ev.class("recursive.depth2");
        }
        if c.r.is_some() {
            ev.class("with-restriction-set");
        }
        let fails = judge(&c);
        for fl in fails {
            let sig = format!("C19 {}", fl.sig);
            if !reported.insert(sig.clone()) {
                continue;
            }
            let s2 = fl.sig.clone();
            let small = shrink(&mut tree, |c| judge(c).iter().any(|x| x.sig == s2), 300);
            let detail = judge(&small).into_iter().find(|x| x.sig == fl.sig).map(|x| x.detail).unwrap_or(fl.detail);
            route_failure(&mut ev, &findings, "multiref-not-transparent", &sig, json!({"case": small, "detail": detail}));
        }
    }
    wd.stop();
    ev.finish()
}

pub fn replay(case: &serde_json::Value) -> i32 {
    let c: Case = serde_json::from_value(case["case"].clone()).expect("C19 replay case");
    let fails = judge(&c);
    for f in &fails {
        println!("{}: {}", f.sig, f.detail);
    }
    if fails.is_empty() {
        0
    } else {
        println!("VIOLATION property=C19 replay=(this file)");
        1
    }
}
