//! C13 — the library never panics, overflows or hangs, whatever the input.
//!
//! Quick tier: proptest-driven, structure-aware mutation of real and generated schema sets
//! (positions from roxmltree), grammar-free junk, and deterministic API-edge probes; every
//! generation runs in an isolated worker process and is classified
//! returned / panicked / killed / timeout. Thorough adds a libFuzzer campaign (see /verif/fuzz).

use crate::common::*;
use crate::worker::{self, Outcome};
use crate::zeep::{self, FileSet};
use proptest::prelude::*;
use proptest::strategy::ValueTree;
use serde_json::json;
use std::collections::BTreeSet;
use std::ops::Range;
use std::path::Path;

#[derive(Clone, Debug, serde::Serialize, serde::Deserialize)]
pub struct Mutation {
    pub kind: u8,
    pub a: u16,
    pub b: u16,
    pub c: u16,
}

#[derive(Clone, Debug, serde::Serialize, serde::Deserialize)]
pub struct Case {
    pub base: u16,
    pub file: u16,
    pub muts: Vec<Mutation>,
}

pub const KINDS: [&str; 17] = [
    "delete-element",
    "duplicate-element",
    "swap-elements",
    "drop-attribute",
    "blank-attribute",
    "retarget-qname",       // attribute value replaced by another value of the same attribute
    "self-reference",       // base/type/ref/element pointed at the enclosing named component
    "swap-tag-name",
    "splice-from-other-file",
    "truncate",
    "inject-junk",
    "rename-name",
    "dangling-qname",
    "duplicate-attribute-value-across", // two components get the same name
    "unwrap-element",       // replace an element by its children
    "import-retarget",      // schemaLocation pointed at itself / another / missing file
    "unicode-value",        // multi-byte characters put into any attribute value (names, URIs, facets)
];

struct Elem {
    range: Range<usize>,
    tag: Range<usize>,
    attrs: Vec<(String, Range<usize>, Range<usize>)>, // (local name, whole attr, value)
    name_attr: Option<String>,
    parent: Option<usize>,
    inner: Option<Range<usize>>, // between start tag and end tag
}

fn scan(text: &str) -> Option<Vec<Elem>> {
    if nesting_depth(text) > 1500 {
        return None; // roxmltree itself would overflow this process's stack
    }
    let doc = roxmltree::Document::parse(text).ok()?;
    let mut out: Vec<Elem> = vec![];
    let mut index = std::collections::HashMap::new();
    for n in doc.descendants().filter(|n| n.is_element()) {
        let r = n.range();
        if r.end > text.len() || r.start >= r.end || !text.is_char_boundary(r.start) || !text.is_char_boundary(r.end) {
            continue;
        }
        let s = &text[r.clone()];
        if !s.starts_with('<') {
            continue;
        }
        let tag_len = s[1..].find(|c: char| c.is_whitespace() || c == '>' || c == '/').unwrap_or(0);
        let tag = r.start + 1..r.start + 1 + tag_len;
        let attrs = n
            .attributes()
            .map(|a| (a.name().to_string(), a.range(), a.range_value()))
            .filter(|(_, w, v)| w.end <= text.len() && v.end <= text.len() && text.is_char_boundary(v.start) && text.is_char_boundary(v.end))
            .collect();
        let inner = {
            // start tag ends at the first '>' not inside quotes
            let mut q: Option<char> = None;
            let mut end_start = None;
            for (i, ch) in s.char_indices() {
                match (q, ch) {
                    (None, '"') | (None, '\'') => q = Some(ch),
                    (Some(x), y) if x == y => q = None,
                    (None, '>') => {
                        end_start = Some(i);
                        break;
                    }
                    _ => {}
                }
            }
            match end_start {
                Some(i) if !s[..i].ends_with('/') => s.rfind("</").filter(|j| *j > i).map(|j| r.start + i + 1..r.start + j),
                _ => None,
            }
        };
        index.insert(n.id(), out.len());
        out.push(Elem {
            range: r,
            tag,
            attrs,
            name_attr: n.attribute("name").map(str::to_string),
            parent: n.parent().and_then(|p| index.get(&p.id()).copied()),
            inner,
        });
    }
    Some(out)
}

fn pick<T>(v: &[T], raw: u16) -> Option<&T> {
    if v.is_empty() { None } else { Some(&v[idx(raw, v.len())]) }
}

const QNAME_ATTRS: [&str; 9] = ["type", "base", "ref", "element", "message", "binding", "itemType", "memberTypes", "part"];

/// Apply one mutation; returns None when it is not applicable to this text.
pub fn mutate(text: &str, others: &[&str], m: &Mutation) -> Option<String> {
    let kind = KINDS[m.kind as usize % KINDS.len()];
    let cut = |raw: u16| -> usize {
        let mut p = idx(raw, text.len().max(1));
        while p > 0 && !text.is_char_boundary(p) {
            p -= 1;
        }
        p
    };
    match kind {
        "truncate" => return Some(text[..cut(m.a)].to_string()),
        "inject-junk" => {
            let junk = ["<", "&", "\u{0}", "]]>", "<!--", "<?", "\"", "<![CDATA[", "<x:y>", "</", "\u{FFFE}", "<!DOCTYPE a [<!ENTITY e \"&e;\">]>"];
            let p = cut(m.a);
            return Some(format!("{}{}{}", &text[..p], junk[idx(m.b, junk.len())], &text[p..]));
        }
        _ => {}
    }
    let els = scan(text)?;
    if els.is_empty() {
        return None;
    }
    let replace = |r: &Range<usize>, with: &str| format!("{}{}{}", &text[..r.start], with, &text[r.end..]);
    match kind {
        "delete-element" => {
            let e = pick(&els[1..], m.a)?;
            Some(replace(&e.range, ""))
        }
        "duplicate-element" => {
            let e = pick(&els[1..], m.a)?;
            let s = &text[e.range.clone()];
            Some(replace(&(e.range.end..e.range.end), s))
        }
        "swap-elements" => {
            let a = pick(&els[1..], m.a)?;
            let b = pick(&els[1..], m.b)?;
            let (a, b) = if a.range.start <= b.range.start { (a, b) } else { (b, a) };
            if a.range.end > b.range.start {
                // nested: put the inner one in place of the outer one
                return Some(replace(&a.range, &text[b.range.clone()]));
            }
            Some(format!(
                "{}{}{}{}{}",
                &text[..a.range.start],
                &text[b.range.clone()],
                &text[a.range.end..b.range.start],
                &text[a.range.clone()],
                &text[b.range.end..]
            ))
        }
        "unwrap-element" => {
            let with_inner: Vec<&Elem> = els[1..].iter().filter(|e| e.inner.is_some()).collect();
            let e = pick(&with_inner, m.a)?;
            Some(replace(&e.range, &text[e.inner.clone().unwrap()]))
        }
        "drop-attribute" | "blank-attribute" => {
            let all: Vec<&(String, Range<usize>, Range<usize>)> = els.iter().flat_map(|e| e.attrs.iter()).collect();
            let a = pick(&all, m.a)?;
            if kind == "drop-attribute" { Some(replace(&a.1, "")) } else { Some(replace(&a.2, "")) }
        }
        "retarget-qname" | "dangling-qname" => {
            let refs: Vec<&(String, Range<usize>, Range<usize>)> =
                els.iter().flat_map(|e| e.attrs.iter()).filter(|a| QNAME_ATTRS.contains(&a.0.as_str())).collect();
            let a = pick(&refs, m.a)?;
            if kind == "dangling-qname" {
                let v = &text[a.2.clone()];
                let dangling = ["tns:NoSuchThing", "nope:Thing", ":", "a:b:c", "", "xs:noSuchBuiltin", "Unprefixed"];
                let d = dangling[idx(m.b, dangling.len())];
                let _ = v;
                return Some(replace(&a.2, d));
            }
            let same: Vec<&(String, Range<usize>, Range<usize>)> =
                els.iter().flat_map(|e| e.attrs.iter()).filter(|b| QNAME_ATTRS.contains(&b.0.as_str())).collect();
            let b = pick(&same, m.b)?;
            Some(replace(&a.2, &text[b.2.clone()]))
        }
        "self-reference" => {
            // find an attribute base/type/ref inside a named component and point it at that component
            let mut cands: Vec<(Range<usize>, String)> = vec![];
            for e in &els {
                for a in &e.attrs {
                    if ["base", "type", "ref", "itemType"].contains(&a.0.as_str()) {
                        // nearest ancestor with a name
                        let mut p = e.parent;
                        while let Some(pi) = p {
                            if let Some(n) = &els[pi].name_attr {
                                let v = &text[a.2.clone()];
                                let prefix = v.split_once(':').map(|x| x.0).unwrap_or("tns");
                                let prefix = if prefix == "xs" || prefix == "xsd" || prefix == "s" { "tns" } else { prefix };
                                cands.push((a.2.clone(), format!("{prefix}:{n}")));
                                break;
                            }
                            p = els[pi].parent;
                        }
                    }
                }
            }
            let c = pick(&cands, m.a)?;
            Some(replace(&c.0, &c.1))
        }
        "swap-tag-name" => {
            let a = pick(&els, m.a)?;
            let b = pick(&els, m.b)?;
            let new = text[b.tag.clone()].to_string();
            let old = text[a.tag.clone()].to_string();
            if new == old {
                return None;
            }
            // rename start tag and (if any) the matching end tag
            let s = &text[a.range.clone()];
            let mut t = format!("<{}{}", new, &s[1 + old.len()..]);
            let end = format!("</{old}>");
            if t.ends_with(&end) {
                let l = t.len() - end.len();
                t.truncate(l);
                t += &format!("</{new}>");
            }
            Some(replace(&a.range, &t))
        }
        "splice-from-other-file" => {
            let o = pick(others, m.c)?;
            let oe = scan(o)?;
            let src = pick(&oe, m.a)?;
            let dst = pick(&els[..], m.b)?;
            let at = dst.inner.clone().map(|r| r.end).unwrap_or(dst.range.end);
            Some(replace(&(at..at), &o[src.range.clone()]))
        }
        "rename-name" | "duplicate-attribute-value-across" => {
            let names: Vec<&(String, Range<usize>, Range<usize>)> = els.iter().flat_map(|e| e.attrs.iter()).filter(|a| a.0 == "name").collect();
            let a = pick(&names, m.a)?;
            if kind == "rename-name" {
                let news = ["", "type", "Self", "self", "1abc", "a b", "a\"b", "é", "x".repeat(300).as_str(), "crate", "None", "Option", "a:b"].map(str::to_string);
                Some(replace(&a.2, &news[idx(m.b, news.len())]))
            } else {
                let b = pick(&names, m.b)?;
                Some(replace(&a.2, &text[b.2.clone()]))
            }
        }
        "unicode-value" => {
            let all: Vec<&(String, Range<usize>, Range<usize>)> = els.iter().flat_map(|e| e.attrs.iter()).collect();
            let a = pick(&all, m.a)?;
            let v = &text[a.2.clone()];
            let uni = ["ü", "é", "€", "日", "😀", "ß", "ａ"];
            let u = uni[idx(m.b, uni.len())];
            // insert after the last '/' or ':' (+ 0..3 bytes), or replace the whole value
            let chars: Vec<char> = v.chars().collect();
            let anchor = chars.iter().rposition(|c| *c == '/' || *c == ':').map(|p| p + 1).unwrap_or(0);
            let at = (anchor + (m.c as usize % 4)).min(chars.len());
            let new: String = match m.c % 5 {
                0 => format!("{u}{u}"),
                1 => format!("{}{u}{u}", chars[..anchor].iter().collect::<String>()),
                _ => format!("{}{u}{}", chars[..at].iter().collect::<String>(), chars[at..].iter().collect::<String>()),
            };
            Some(replace(&a.2, &new))
        }
        "import-retarget" => {
            let locs: Vec<&(String, Range<usize>, Range<usize>)> =
                els.iter().flat_map(|e| e.attrs.iter()).filter(|a| a.0 == "schemaLocation" || a.0 == "namespace" || a.0 == "targetNamespace" || a.0 == "location" || a.0 == "soapAction").collect();
            let a = pick(&locs, m.a)?;
            let vals = ["", "self.xsd", "missing.xsd", "../x.xsd", "http://", "not a url", "urn:x", "/", "http://example.org/a/", "http://example.org/123", "service.wsdl", "types.xsd", "f0.xsd"];
            Some(replace(&a.2, vals[idx(m.b, vals.len())]))
        }
        _ => None,
    }
}

fn arb_case(n_base: usize) -> impl Strategy<Value = Case> {
    let m = (0u8..KINDS.len() as u8, any::<u16>(), any::<u16>(), any::<u16>()).prop_map(|(kind, a, b, c)| Mutation { kind, a, b, c });
    (0u16..n_base as u16, any::<u16>(), proptest::collection::vec(m, 1..4)).prop_map(|(base, file, muts)| Case { base, file, muts })
}

/// returns (mutated set, applied mutation kinds)
pub fn apply(base: &FileSet, case: &Case) -> (FileSet, Vec<&'static str>) {
    let mut fs = base.clone();
    let mut applied = vec![];
    for (k, m) in case.muts.iter().enumerate() {
        let fi = idx(case.file.wrapping_add((k as u16).wrapping_mul(m.c)), fs.files.len());
        // bias: the start file is mutated half of the time
        let fi = if m.c % 2 == 0 { fs.files.iter().position(|f| f.0 == fs.start).unwrap_or(fi) } else { fi };
        let others: Vec<&str> = fs.files.iter().enumerate().filter(|(i, _)| *i != fi).map(|(_, f)| f.1.as_str()).collect();
        let others: Vec<&str> = if others.is_empty() { vec![fs.files[fi].1.as_str()] } else { others };
        if let Some(t) = mutate(&fs.files[fi].1, &others, m) {
            applied.push(KINDS[m.kind as usize % KINDS.len()]);
            fs.files[fi].1 = t;
        }
    }
    (fs, applied)
}

fn seed_corpus(tier: Tier) -> Vec<(String, FileSet)> {
    let mut c: Vec<(String, FileSet)> = vec![];
    for (l, fs) in crate::c15::corpus_for(Tier::Quick) {
        // multi-megabyte inputs cost seconds per mutant; quick keeps inputs below 300 KB
        if fs.total_len() < tier.pick(300_000, 4_000_000) {
            c.push((l, fs));
        }
    }
    // order-sensitive WSDLs and import graphs
    let mut runner = crate::common::runner("C13-seeds");
    let ws = crate::c12::arb_wsdl_pub();
    for i in 0..12 {
        c.push((format!("gen-wsdl{i}"), crate::c12::render(&ws.new_tree(&mut runner).unwrap().current())));
    }
    for (i, edges) in [vec![vec![1], vec![2], vec![0]], vec![vec![1, 2], vec![2], vec![]], vec![vec![0]], vec![vec![1], vec![0], vec![]]].into_iter().enumerate() {
        let n = edges.len();
        c.push((format!("graph{i}"), crate::c11::render(&crate::c11::Graph { n, edges, start: 0, noise: crate::c11::Noise::None, same_suffix: false, declare_prefixes: true, tns_of: vec![], includes: vec![] })));
    }
    c.push(("ext-chain".into(), FileSet::single("ext.xsd", EXT_CHAIN)));
    c
}

const EXT_CHAIN: &str = r#"<?xml version="1.0"?>
<xs:schema xmlns:xs="http://www.w3.org/2001/XMLSchema" xmlns:tns="http://example.org/ext" targetNamespace="http://example.org/ext" elementFormDefault="qualified">
  <xs:complexType name="Derived"><xs:complexContent><xs:extension base="tns:Middle"><xs:sequence><xs:element name="d" type="xs:string"/></xs:sequence></xs:extension></xs:complexContent></xs:complexType>
  <xs:complexType name="Middle"><xs:complexContent><xs:extension base="tns:Base"><xs:sequence><xs:element name="m" type="tns:Code" minOccurs="0"/></xs:sequence></xs:extension></xs:complexContent></xs:complexType>
  <xs:complexType name="Base"><xs:sequence><xs:element name="b" type="xs:int"/><xs:element ref="tns:Glob" minOccurs="0"/></xs:sequence><xs:attribute name="id" type="xs:ID"/></xs:complexType>
  <xs:simpleType name="Code"><xs:restriction base="xs:string"><xs:enumeration value="A"/><xs:enumeration value="B"/></xs:restriction></xs:simpleType>
  <xs:simpleType name="Codes"><xs:list itemType="tns:Code"/></xs:simpleType>
  <xs:simpleType name="Either"><xs:union memberTypes="tns:Code xs:int"/></xs:simpleType>
  <xs:element name="Glob" type="tns:Base"/>
  <xs:group name="G"><xs:sequence><xs:element name="g" type="xs:string"/></xs:sequence></xs:group>
</xs:schema>"#;

fn edge_probes() -> Vec<(String, FileSet)> {
    let mut v = vec![];
    // many namespaces with the same abbreviation
    let mut s = String::from("<?xml version=\"1.0\"?>\n<xs:schema xmlns:xs=\"http://www.w3.org/2001/XMLSchema\" targetNamespace=\"http://example.org/n/types\"");
    for i in 0..300 {
        s += &format!(" xmlns:p{i}=\"http://example.org/v{i}/types\"");
    }
    s += "><xs:complexType name=\"A\"><xs:sequence/></xs:complexType></xs:schema>";
    v.push(("edge/300-colliding-namespaces".to_string(), FileSet::single("many.xsd", &s)));
    // enumeration without value
    v.push((
        "edge/enumeration-without-value".to_string(),
        FileSet::single("e.xsd", "<xs:schema xmlns:xs=\"http://www.w3.org/2001/XMLSchema\" targetNamespace=\"urn:e\"><xs:simpleType name=\"E\"><xs:restriction base=\"xs:string\"><xs:enumeration/></xs:restriction></xs:simpleType></xs:schema>"),
    ));
    // empty member of the file set, empty start file
    v.push(("edge/empty-start-file".to_string(), FileSet::single("a.xsd", "")));
    v.push(("edge/whitespace-only".to_string(), FileSet::single("a.xsd", "  \n\t")));
    v.push(("edge/bom-only".to_string(), FileSet::single("a.xsd", "\u{FEFF}")));
    // start file that was never registered
    v.push(("edge/start-file-not-registered".to_string(), FileSet { start: "missing.wsdl".into(), files: vec![("a.xsd".into(), "<xs:schema xmlns:xs=\"http://www.w3.org/2001/XMLSchema\"/>".into())] }));
    // doubled forward references: every element refers twice to the next, declared later
    {
        let n = 40;
        let mut t = String::from("<xs:schema xmlns:xs=\"http://www.w3.org/2001/XMLSchema\" xmlns:t=\"urn:e\" targetNamespace=\"urn:e\">");
        for i in 0..n {
            t += &format!("<xs:element name=\"E{i}\"><xs:complexType><xs:sequence><xs:element ref=\"t:E{0}\"/><xs:element ref=\"t:E{0}\" minOccurs=\"0\"/></xs:sequence></xs:complexType></xs:element>", i + 1);
        }
        t += &format!("<xs:element name=\"E{n}\" type=\"xs:string\"/></xs:schema>");
        v.push(("edge/40-doubled-forward-references".to_string(), FileSet::single("fwd.xsd", &t)));
        let mut t = String::from("<xs:schema xmlns:xs=\"http://www.w3.org/2001/XMLSchema\" xmlns:t=\"urn:e\" targetNamespace=\"urn:e\">");
        for i in 0..n {
            t += &format!("<xs:complexType name=\"T{i}\"><xs:complexContent><xs:extension base=\"t:T{0}\"><xs:sequence><xs:element name=\"a{i}\" type=\"t:T{0}\"/><xs:element name=\"b{i}\" type=\"t:T{0}\"/></xs:sequence></xs:extension></xs:complexContent></xs:complexType>", i + 1);
        }
        t += &format!("<xs:complexType name=\"T{n}\"><xs:sequence/></xs:complexType></xs:schema>");
        v.push(("edge/40-forward-extension-with-typed-members".to_string(), FileSet::single("fwd2.xsd", &t)));
    }
    // forward references into a namespace that has no components (a dangling prefix), doubled
    {
        let n = 24;
        let mut t = String::from("<xs:schema xmlns:xs=\"http://www.w3.org/2001/XMLSchema\" xmlns:t=\"urn:e\" xmlns:o=\"urn:other\" targetNamespace=\"urn:e\">");
        for i in 0..n {
            t += &format!("<xs:element name=\"e{i}\"><xs:complexType><xs:sequence><xs:element ref=\"o:e{0}\"/><xs:element ref=\"o:e{0}\" minOccurs=\"0\"/></xs:sequence></xs:complexType></xs:element>", i + 1);
        }
        t += &format!("<xs:element name=\"e{n}\" type=\"xs:string\"/></xs:schema>");
        v.push(("edge/24-doubled-forward-references-into-a-foreign-namespace".to_string(), FileSet::single("fwd3.xsd", &t)));
    }
    // an element and a group (or a type) of one name at every level of a forward chain, each
    // referring to both components of the next level
    for (label, second_open, second_close) in [("group", "<xs:group name=\"L{i}\"><xs:sequence><xs:group ref=\"t:L{n}\"/><xs:element ref=\"t:L{n}\"/></xs:sequence>", "</xs:group>"), ("type", "<xs:complexType name=\"L{i}\"><xs:sequence><xs:element name=\"a\" type=\"t:L{n}\"/><xs:element ref=\"t:L{n}\"/></xs:sequence>", "</xs:complexType>")] {
        let levels = 40;
        let mut t = String::from("<xs:schema xmlns:xs=\"http://www.w3.org/2001/XMLSchema\" xmlns:t=\"urn:example:tree\" targetNamespace=\"urn:example:tree\" elementFormDefault=\"qualified\">");
        for i in 0..levels {
            let first = if label == "group" {
                format!("<xs:element name=\"L{i}\"><xs:complexType><xs:sequence><xs:group ref=\"t:L{0}\"/><xs:element ref=\"t:L{0}\"/></xs:sequence></xs:complexType></xs:element>", i + 1)
            } else {
                format!("<xs:element name=\"L{i}\"><xs:complexType><xs:sequence><xs:element name=\"b\" type=\"t:L{0}\"/><xs:element ref=\"t:L{0}\"/></xs:sequence></xs:complexType></xs:element>", i + 1)
            };
            t += &first;
            t += &second_open.replace("{i}", &i.to_string()).replace("{n}", &(i + 1).to_string());
            t += second_close;
        }
        t += &format!("<xs:element name=\"L{levels}\" type=\"xs:string\"/>");
        t += &if label == "group" {
            format!("<xs:group name=\"L{levels}\"><xs:sequence><xs:element name=\"Leaf\" type=\"xs:string\"/></xs:sequence></xs:group>")
        } else {
            format!("<xs:complexType name=\"L{levels}\"><xs:sequence><xs:element name=\"Leaf\" type=\"xs:string\"/></xs:sequence></xs:complexType>")
        };
        t += "</xs:schema>";
        v.push((format!("edge/40-levels-of-same-named-element-and-{label}-forward"), FileSet::single("pairs.xsd", &t)));
    }
    // character references to control characters in documentation and names (a bare CR is not
    // normalised away when it is written as &#13;)
    {
        let doc = "first&#13;second&#13;&#13;third&#10;fourth&#13;&#10;fifth&#9;tab&#13;";
        let t = format!(
            "<xs:schema xmlns:xs=\"http://www.w3.org/2001/XMLSchema\" xmlns:t=\"urn:e\" targetNamespace=\"urn:e\"><xs:simpleType name=\"S\"><xs:annotation><xs:documentation>{doc}</xs:documentation></xs:annotation><xs:restriction base=\"xs:string\"><xs:enumeration value=\"a&#13;b\"/></xs:restriction></xs:simpleType><xs:complexType name=\"C\"><xs:annotation><xs:documentation>{doc}</xs:documentation></xs:annotation><xs:sequence><xs:element name=\"x\" type=\"t:S\"/></xs:sequence></xs:complexType><xs:element name=\"E\"><xs:annotation><xs:documentation>{doc}</xs:documentation></xs:annotation><xs:complexType><xs:annotation><xs:documentation>&#13;</xs:documentation></xs:annotation><xs:sequence/></xs:complexType></xs:element></xs:schema>"
        );
        v.push(("edge/control-character-references-in-documentation".to_string(), FileSet::single("cr.xsd", &t)));
    }
    // a long chain of forward element references (one per level)
    {
        let n = 2500;
        let mut t = String::from("<xs:schema xmlns:xs=\"http://www.w3.org/2001/XMLSchema\" xmlns:t=\"urn:e\" targetNamespace=\"urn:e\">");
        for i in 0..n {
            t += &format!("<xs:element name=\"e{i}\"><xs:complexType><xs:sequence><xs:element ref=\"t:e{0}\"/></xs:sequence></xs:complexType></xs:element>", i + 1);
        }
        t += &format!("<xs:element name=\"e{n}\" type=\"xs:string\"/></xs:schema>");
        v.push(("edge/2500-long-forward-element-reference-chain".to_string(), FileSet::single("chain.xsd", &t)));
    }
    // layered shared imports: both files of layer i import both files of layer i+1
    {
        let layers = 30;
        let mut files = vec![];
        let name = |l: usize, k: usize| format!("l{l}k{k}.xsd");
        for l in 0..layers {
            for k in 0..2 {
                let mut t = format!("<xs:schema xmlns:xs=\"http://www.w3.org/2001/XMLSchema\" targetNamespace=\"http://example.org/layer/n{l}x{k}\">");
                if l + 1 < layers {
                    for k2 in 0..2 {
                        t += &format!("<xs:import namespace=\"http://example.org/layer/n{}x{k2}\" schemaLocation=\"{}\"/>", l + 1, name(l + 1, k2));
                    }
                }
                t += &format!("<xs:complexType name=\"L{l}K{k}\"><xs:sequence><xs:element name=\"v\" type=\"xs:string\"/></xs:sequence></xs:complexType></xs:schema>");
                files.push((name(l, k), t));
            }
        }
        v.push(("edge/30-layers-of-shared-imports".to_string(), FileSet { start: name(0, 0), files }));
    }
    // very deep element nesting (any root)
    for n in [20_000usize, 200_000] {
        v.push((format!("edge/{n}-nested-elements"), FileSet::single("deepa.xsd", &format!("{}{}", "<a>".repeat(n), "</a>".repeat(n)))));
    }
    let deep20k = format!(
        "<xs:schema xmlns:xs=\"http://www.w3.org/2001/XMLSchema\" targetNamespace=\"urn:d\"><xs:complexType name=\"D\">{}<xs:element name=\"x\" type=\"xs:string\"/>{}</xs:complexType></xs:schema>",
        "<xs:sequence>".repeat(20_000),
        "</xs:sequence>".repeat(20_000)
    );
    v.push(("edge/20000-nested-sequences".to_string(), FileSet::single("deep20k.xsd", &deep20k)));
    // deep nesting
    let deep = format!(
        "<xs:schema xmlns:xs=\"http://www.w3.org/2001/XMLSchema\" targetNamespace=\"urn:d\"><xs:complexType name=\"D\">{}<xs:element name=\"x\" type=\"xs:string\"/>{}</xs:complexType></xs:schema>",
        "<xs:sequence>".repeat(3000),
        "</xs:sequence>".repeat(3000)
    );
    v.push(("edge/3000-nested-sequences".to_string(), FileSet::single("deep.xsd", &deep)));
    let wide = format!(
        "<xs:schema xmlns:xs=\"http://www.w3.org/2001/XMLSchema\" targetNamespace=\"urn:w\">{}</xs:schema>",
        (0..1500).map(|i| format!("<xs:complexType name=\"T{i}\"><xs:complexContent><xs:extension base=\"T{}\"/></xs:complexContent></xs:complexType>", i + 1)).collect::<String>()
    );
    v.push(("edge/1500-long-forward-extension-chain".to_string(), FileSet::single("wide.xsd", &wide)));
    v
}

fn reached_reader(fs: &FileSet) -> bool {
    let Some(start) = fs.files.iter().find(|f| f.0 == fs.start) else { return false };
    if nesting_depth(&start.1) > 1500 {
        return start.1.contains("schema") || start.1.contains("definitions");
    }
    roxmltree::Document::parse(&start.1).is_ok_and(|d| matches!(d.root_element().tag_name().name(), "schema" | "definitions"))
}

/// Rough element nesting depth of a text (counts `<name` against `</` and `/>`).
pub fn nesting_depth(text: &str) -> usize {
    let b = text.as_bytes();
    let (mut depth, mut max) = (0usize, 0usize);
    let mut i = 0;
    while i + 1 < b.len() {
        if b[i] == b'<' {
            if b[i + 1] == b'/' {
                depth = depth.saturating_sub(1);
            } else if b[i + 1].is_ascii_alphabetic() || b[i + 1] == b'_' {
                depth += 1;
                max = max.max(depth);
            }
        } else if b[i] == b'/' && b[i + 1] == b'>' {
            depth = depth.saturating_sub(1);
        }
        i += 1;
    }
    max
}

/// Like `failure_of`, but a stack overflow on an input nested thousands of elements deep is
/// told apart from every other stack overflow (roxmltree's parser is recursive).
fn failure_of_input(fs: &FileSet, out: &Outcome) -> Option<(String, String)> {
    let (sig, detail) = failure_of(out)?;
    if sig == "killed:stack-overflow" {
        let d = fs.files.iter().map(|f| nesting_depth(&f.1)).max().unwrap_or(0);
        if d >= 5000 {
            return Some((format!("{sig}:element-nesting>=5000"), format!("nesting depth {d}; {detail}")));
        }
    }
    Some((sig, detail))
}

fn failure_of(out: &Outcome) -> Option<(String, String)> {
    match out {
        Outcome::Ok { .. } | Outcome::ReadErr { .. } | Outcome::WriteErr { .. } => None,
        Outcome::Panic { msg } => {
            let text: String = msg.split(" @ ").next().unwrap_or("").chars().take(60).collect();
            let text = text.split(|c: char| c.is_ascii_digit()).next().unwrap_or("").trim().to_string();
            Some((format!("panic:{}:{}", crate::c15::panic_site(msg), text), msg.clone()))
        }
        Outcome::Killed { signal, stderr } => {
            let why = if stderr.contains("overflow") { "stack-overflow".to_string() } else { format!("signal-{signal}") };
            Some((format!("killed:{why}"), stderr.clone()))
        }
        Outcome::Timeout { limit_ms } => Some(("timeout".into(), format!("no answer within {limit_ms} ms (confirmed by two solo re-runs)"))),
    }
}

pub fn run(tier: Tier) -> i32 {
    zeep::install_panic_hook();
    let findings = Findings::load();
    findings.print_fixed("C13");
    let mut ev = Evidence::new(
        "C13",
        tier,
        "exploration",
        "quick and thorough: 1-3 structure-aware mutations (delete/duplicate/swap/unwrap an element, drop/blank an attribute, retarget a QName to another one / a dangling one / the enclosing component itself, swap tag names, splice a subtree from another file, rename to keywords and odd names, duplicate names, retarget imports/namespaces/addresses, truncate, inject non-XML) applied by proptest to the repository's schemas (below 300 KB in quick), generated WSDLs, import graphs and an extension/list/union/group schema; plus fixed API-edge probes (colliding namespaces, deep nesting, long, doubled, foreign-namespace and same-named-pair forward reference chains, layered imports, empty and unregistered files). Every generation (read_xml then write_xml) runs in an isolated worker process with a watchdog (10 s + 1 s per 100 KB, confirmed twice at 3x). Oracle: outcome class is returned-Ok or returned-Err; never panic, signal or timeout. Non-trivial: the mutated start file is still well-formed XML with a schema/definitions root (so the reader proper is reached); distinct by (applied mutation kinds, base document, outcome class, file-set hash). Thorough adds a coverage-guided libFuzzer campaign (/verif/fuzz, fork mode, 16 jobs, wall budget in extra.fuzz) seeded with the same corpus; its artifacts and its final corpus are re-run in the worker, which alone decides (classes fuzz.*).",
    );
    ev.assume("stack size of the generating thread is 8 MiB (what a CLI main thread has)");
    let bases = seed_corpus(tier);
    let mut reported: BTreeSet<String> = BTreeSet::new();
    // the coverage-guided campaign runs first, while this process is still small: libFuzzer reads its
    // peak RSS with getrusage, and a child inherits the peak of the process that spawned it
    if tier == Tier::Thorough || std::env::var("VH_C13_FUZZ").is_ok() {
        fuzz_phase(&mut ev, &findings, &bases, &mut reported);
    }
    let n = tier.pick(6_000, 80_000);
    let mut runner = crate::common::runner("C13");
    let strat = arb_case(bases.len());
    let mut cases: Vec<(Case, FileSet, Vec<&'static str>)> = vec![];
    let mut trees = vec![];
    for _ in 0..n {
        let t = strat.new_tree(&mut runner).unwrap();
        let c = t.current();
        let (fs, applied) = apply(&bases[c.base as usize].1, &c);
        cases.push((c, fs, applied));
        trees.push(t);
    }
    let probes = edge_probes();
    let mut sets: Vec<FileSet> = cases.iter().map(|c| c.1.clone()).collect();
    sets.extend(probes.iter().map(|p| p.1.clone()));
    sets.extend(bases.iter().map(|b| b.1.clone())); // the unmutated seeds themselves
    let outs = worker::run_all(&sets, 16);

    let mut fail_idx: Vec<(usize, String, String)> = vec![];
    for (i, out) in outs.iter().enumerate() {
        let (label, kinds): (String, Vec<&str>) = if i < cases.len() {
            (bases[cases[i].0.base as usize].0.clone(), cases[i].2.clone())
        } else if i < cases.len() + probes.len() {
            (probes[i - cases.len()].0.clone(), vec!["edge-probe"])
        } else {
            (bases[i - cases.len() - probes.len()].0.clone(), vec!["unmutated"])
        };
        let nt = reached_reader(&sets[i]);
        ev.case(&format!("{kinds:?}|{label}|{}|{:016x}", out.class(), hash64(&format!("{:?}", sets[i]))), nt);
        ev.class(&format!("outcome.{}", out.class()));
        if nt {
            ev.class("reached-reader");
        }
        for k in &kinds {
            ev.class(&format!("mutation.{k}"));
        }
        if i < 3 {
            ev.sample(json!({"base": label, "mutations": kinds, "outcome": out.class(), "start_file_head": sets[i].files.first().map(|f| f.1.chars().take(200).collect::<String>())}));
        }
        if let Some((sig, detail)) = failure_of_input(&sets[i], out) {
            fail_idx.push((i, format!("C13 {sig}"), detail));
        }
    }
    // one report per signature, smallest input first; shrink mutation cases
    fail_idx.sort_by_key(|(i, sig, _)| (sig.clone(), sets[*i].total_len()));
    for (i, sig, detail) in fail_idx {
        if !reported.insert(sig.clone()) {
            ev.class("further-failing-inputs");
            continue;
        }
        let mut fs = sets[i].clone();
        if i < cases.len() {
            // shrink the mutation list against "same signature"
            let base = &bases[cases[i].0.base as usize].1;
            let want = sig.clone();
            let small = shrink(
                &mut trees[i],
                |c| {
                    if c.base != cases[i].0.base {
                        return false;
                    }
                    let (f, _) = apply(base, c);
                    failure_of_input(&f, &worker::run_single(&f)).is_some_and(|(s, _)| format!("C13 {s}") == want)
                },
                40,
            );
            fs = apply(base, &small).0;
        }
        let fs_json = if fs.total_len() < 400_000 { json!(fs) } else { json!({"too_large": true, "start": fs.start}) };
        route_failure(&mut ev, &findings, "crash", &sig, json!({"fileset": fs_json, "detail": detail}));
    }
    ev.finish()
}

// ---------------------------------------------------------------------------------------------
// coverage-guided campaign (libFuzzer, /verif/fuzz): thorough tier

const SEPARATOR: &str = "\n=====FILE=====\n";

/// A file set in the text container the fuzz target reads: start file first, siblings after it,
/// file names replaced by f0.wsdl, f1.xsd, ... in every schemaLocation / location attribute.
fn to_container(fs: &FileSet) -> String {
    let mut order: Vec<usize> = (0..fs.files.len()).collect();
    if let Some(si) = fs.files.iter().position(|f| f.0 == fs.start) {
        order.swap(0, si);
    }
    let new_name = |k: usize| if k == 0 { "f0.wsdl".to_string() } else { format!("f{k}.xsd") };
    let mut texts: Vec<String> = order.iter().map(|i| fs.files[*i].1.clone()).collect();
    for t in &mut texts {
        for (k, i) in order.iter().enumerate() {
            *t = t.replace(&format!("ocation=\"{}\"", fs.files[*i].0), &format!("ocation=\"{}\"", new_name(k)));
        }
    }
    texts.join(SEPARATOR)
}

fn from_container(text: &str) -> FileSet {
    let mut files = vec![];
    for (k, p) in text.split(SEPARATOR).enumerate().take(7) {
        files.push((if k == 0 { "f0.wsdl".to_string() } else { format!("f{k}.xsd") }, p.to_string()));
    }
    FileSet { start: "f0.wsdl".into(), files }
}

fn fuzz_phase(ev: &mut Evidence, findings: &Findings, bases: &[(String, FileSet)], reported: &mut BTreeSet<String>) {
    use std::process::Command;
    let secs: u64 = std::env::var("VH_C13_FUZZ_SECS").ok().and_then(|v| v.parse().ok()).unwrap_or(600);
    let fuzz_dir = Path::new(crate::common::VERIF).join("fuzz");
    let build = Command::new("cargo")
        .args(["+nightly", "fuzz", "build", "--fuzz-dir"])
        .arg(&fuzz_dir)
        .arg("read_write")
        .current_dir(&fuzz_dir)
        .env("CARGO_NET_OFFLINE", "true")
        .output();
    let built = matches!(&build, Ok(o) if o.status.success());
    let bin = fuzz_dir.join("target/x86_64-unknown-linux-gnu/release/read_write");
    if !built || !bin.exists() {
        let why = build.map(|o| String::from_utf8_lossy(&o.stderr).lines().filter(|l| l.starts_with("error")).take(3).collect::<Vec<_>>().join(" | ")).unwrap_or_else(|e| e.to_string());
        ev.extra.insert("fuzz".into(), json!({"skipped": format!("the libFuzzer target did not build: {why}")}));
        ev.assume("the coverage-guided campaign was skipped: the fuzz target did not build (see extra.fuzz)");
        return;
    }
    let scratch = crate::common::scratch_dir("c13-fuzz");
    let corpus = scratch.join("corpus");
    let arts = scratch.join("artifacts");
    std::fs::create_dir_all(&corpus).unwrap();
    std::fs::create_dir_all(&arts).unwrap();
    let mut n_seeds = 0;
    for (i, (_, fs)) in bases.iter().enumerate() {
        if fs.total_len() < 120_000 && fs.files.len() <= 7 && fs.files.iter().all(|f| nesting_depth(&f.1) < 300) {
            std::fs::write(corpus.join(format!("seed{i:03}")), to_container(fs)).unwrap();
            n_seeds += 1;
        }
    }
    let seed = crate::common::seed().wrapping_add(1).max(1) % 0xffff_ffff;
    let out = Command::new(&bin)
        .arg(&corpus)
        .args([
            "-fork=16",
            "-ignore_crashes=1",
            "-ignore_timeouts=1",
            "-ignore_ooms=1",
            "-timeout=25",
            "-rss_limit_mb=4096",
            "-max_len=131072",
            "-len_control=0",
            "-print_final_stats=1",
        ])
        .arg(format!("-max_total_time={secs}"))
        .arg(format!("-seed={seed}"))
        .arg(format!("-dict={}", fuzz_dir.join("xsd.dict").display()))
        .arg(format!("-artifact_prefix={}/", arts.display()))
        // fork mode keeps its per-job corpora under $TMPDIR: inside the scratch directory, not /tmp
        .env("TMPDIR", &scratch)
        .current_dir(&scratch)
        .output();
    let log = out.map(|o| String::from_utf8_lossy(&o.stderr).to_string()).unwrap_or_default();
    // kept for triage (overwritten by the next run)
    let _ = std::fs::write(Path::new(crate::common::VERIF).join("harness/target/c13-fuzz-last.log"), &log);
    // "#12345: cov: 4321 ft: 9999 corp: 321 exec/s 100 ..."
    let (mut execs, mut cov, mut ft) = (0u64, 0u64, 0u64);
    for l in log.lines() {
        if let Some(rest) = l.strip_prefix('#') {
            let num = |key: &str| rest.split(key).nth(1).and_then(|x| x.trim().split_whitespace().next()).and_then(|x| x.parse::<u64>().ok());
            if let (Some(e), Some(c)) = (rest.split(':').next().and_then(|x| x.trim().parse::<u64>().ok()), num("cov:")) {
                execs = execs.max(e);
                cov = cov.max(c);
                ft = ft.max(num("ft:").unwrap_or(0));
            }
        }
    }
    // every artifact is re-run in the isolated worker, which decides
    let mut art_sets: Vec<(String, FileSet)> = vec![];
    if let Ok(rd) = std::fs::read_dir(&arts) {
        let mut names: Vec<_> = rd.flatten().map(|e| e.path()).collect();
        names.sort();
        for p in names {
            if let Ok(bytes) = std::fs::read(&p) {
                if let Ok(text) = String::from_utf8(bytes) {
                    art_sets.push((p.file_name().unwrap().to_string_lossy().to_string(), from_container(&text)));
                }
            }
        }
    }
    // and so is the corpus the campaign ended with (the coverage-distinct inputs it found)
    let mut corp_sets: Vec<FileSet> = vec![];
    if let Ok(rd) = std::fs::read_dir(&corpus) {
        let mut names: Vec<_> = rd.flatten().map(|e| e.path()).collect();
        names.sort();
        for p in names {
            if let Ok(text) = std::fs::read_to_string(&p) {
                corp_sets.push(from_container(&text));
            }
        }
    }
    let n_art = art_sets.len();
    let mut all: Vec<FileSet> = art_sets.iter().map(|a| a.1.clone()).collect();
    all.extend(corp_sets.iter().cloned());
    let outs = worker::run_all(&all, 16);
    let mut not_reproduced = 0;
    let mut fails: Vec<(usize, String, String)> = vec![];
    for (i, o) in outs.iter().enumerate() {
        let nt = reached_reader(&all[i]);
        let origin = if i < n_art { "fuzz-artifact" } else { "fuzz-corpus" };
        ev.case(&format!("{origin}|{}|{:016x}", o.class(), hash64(&format!("{:?}", all[i]))), nt);
        ev.class(&format!("fuzz.{origin}.{}", o.class()));
        match failure_of_input(&all[i], o) {
            Some((sig, detail)) => fails.push((i, format!("C13 {sig}"), detail)),
            None if i < n_art => not_reproduced += 1,
            None => {}
        }
    }
    fails.sort_by_key(|(i, sig, _)| (sig.clone(), all[*i].total_len()));
    for (i, sig, detail) in fails {
        if !reported.insert(sig.clone()) {
            ev.class("further-failing-inputs");
            continue;
        }
        route_failure(ev, findings, "crash", &sig, json!({"fileset": all[i], "detail": detail, "found_by": "libFuzzer"}));
    }
    ev.extra.insert(
        "fuzz".into(),
        json!({
            "engine": "libFuzzer (cargo-fuzz, /verif/fuzz, target read_write), fork mode, 16 jobs",
            "wall_budget_s": secs, "seed": seed, "seed_inputs": n_seeds,
            "executions": execs, "coverage_edges": cov, "features": ft,
            "final_corpus": corp_sets.len(), "artifacts": n_art, "artifacts_not_reproduced_in_worker": not_reproduced,
            "excluded_by_construction": "inputs nested deeper than 400 elements (open finding F16) are skipped inside the target",
        }),
    );
    let _ = std::fs::remove_dir_all(&scratch);
}

pub fn replay(case: &serde_json::Value) -> i32 {
    let fs: FileSet = serde_json::from_value(case["fileset"].clone()).expect("C13 replay needs the file set");
    let out = worker::run_single(&fs);
    let f = failure_of_input(&fs, &out);
    println!("outcome {} -> {f:?}", out.class());
    if f.is_some() {
        println!("VIOLATION property=C13 replay=(this file)");
        1
    } else {
        0
    }
}
