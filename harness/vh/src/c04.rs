//! C04 — schema-valid instances deserialize losslessly and round-trip.
use crate::common::Tier;
use crate::wire::{self, Cfg, Mode};

pub fn run(tier: Tier) -> i32 {
    wire::run_with(
        tier,
        &Cfg {
            id: "C04",
            mode: Mode::Roundtrip,
            rule: "as C03, and for every generated value four instance documents rendered from the expected infoset with different surface syntax (fresh prefixes n0,n1.. declared on the root; the root namespace as default namespace with other prefixes declared at first use; every element re-declaring its namespace as default namespace; pretty-printed with single quotes). Inside the driver yaserde::de::from_str::<T>(instance) must be Ok, Debug of the result must equal Debug of the value built from the literal, its re-serialization must be infoset-equal (value space) to the instance, and ser(de(ser(v))) == ser(v) byte for byte. Non-trivial as C03; distinct by file set and value tape.",
            n_quick: 150,
            n_thorough: 2500,
            tune: &|p| {
                p.colliding_abbrev = true;
                p.xml_lang = 1;
                p.kind_mix = true;
            },
            also: None,
        },
    )
}

pub fn replay(case: &serde_json::Value) -> i32 {
    wire::replay("C04", Mode::Roundtrip, case)
}
