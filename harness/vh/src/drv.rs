//! Synthesized driver programs: the emitted file is mounted as module `g`, a list of probes is
//! compiled into `main`, the binary is run under a watchdog and answers one JSON line per probe.

use crate::rustc::{self, Externs};
use std::path::Path;

#[derive(Clone, Debug)]
pub enum Probe {
    /// serialize the value written as a Rust expression
    Ser { expr: String },
    /// Debug text of the value
    Dbg { expr: String },
    /// deserialize `xml` into `ty`; answers Debug text and the re-serialization
    De { ty: String, xml: String },
    /// ser(de(ser(v))) == ser(v)
    Fix { ty: String, expr: String },
    /// check_restrictions(None).is_err()
    Chk { expr: String },
    /// free-form statement block that must call `emit(n, kind, ok, text, dbg)` itself
    Raw { code: String },
}

#[derive(Clone, Debug, Default)]
pub struct Answer {
    pub kind: String,
    pub ok: bool,
    pub text: String,
    pub dbg: String,
    /// no answer arrived: the driver died or hung in this probe
    pub missing: bool,
    pub hung: bool,
}

const SUPPORT: &str = r#"
#![allow(warnings)]
#[path = "out.rs"]
mod g;
use std::io::Write;
fn esc(s: &str) -> String {
    let mut o = String::new();
    for c in s.chars() {
        match c {
            '"' => o.push_str("\\\""),
            '\\' => o.push_str("\\\\"),
            '\n' => o.push_str("\\n"),
            '\r' => o.push_str("\\r"),
            '\t' => o.push_str("\\t"),
            c if (c as u32) < 0x20 => o.push_str(&format!("\\u{:04x}", c as u32)),
            c => o.push(c),
        }
    }
    o
}
fn emit(n: usize, kind: &str, ok: bool, text: &str, dbg: &str) {
    let so = std::io::stdout();
    let mut so = so.lock();
    let _ = writeln!(so, "{{\"n\":{n},\"kind\":\"{kind}\",\"ok\":{ok},\"text\":\"{}\",\"dbg\":\"{}\"}}", esc(text), esc(dbg));
    let _ = so.flush();
}
fn begin(n: usize) {
    let so = std::io::stdout();
    let mut so = so.lock();
    let _ = writeln!(so, "BEGIN {n}");
    let _ = so.flush();
}
fn p_ser<T: yaserde::YaSerialize>(n: usize, v: &T) {
    match yaserde::ser::to_string(v) {
        Ok(s) => emit(n, "ser", true, &s, ""),
        Err(e) => emit(n, "ser", false, &e, ""),
    }
}
fn p_dbg<T: std::fmt::Debug>(n: usize, v: &T) {
    emit(n, "dbg", true, "", &format!("{v:?}"));
}
fn p_de<T: yaserde::YaDeserialize + yaserde::YaSerialize + std::fmt::Debug>(n: usize, xml: &str) {
    match yaserde::de::from_str::<T>(xml) {
        Ok(v) => {
            let re = yaserde::ser::to_string(&v).unwrap_or_else(|e| format!("SER-ERR {e}"));
            emit(n, "de", true, &re, &format!("{v:?}"))
        }
        Err(e) => emit(n, "de", false, &e, ""),
    }
}
fn p_fix<T: yaserde::YaDeserialize + yaserde::YaSerialize>(n: usize, v: &T) {
    let s1 = match yaserde::ser::to_string(v) {
        Ok(s) => s,
        Err(e) => return emit(n, "fix", false, &format!("SER-ERR {e}"), ""),
    };
    let v2: T = match yaserde::de::from_str(&s1) {
        Ok(v) => v,
        Err(e) => return emit(n, "fix", false, &s1, &format!("DE-ERR {e}")),
    };
    let s2 = yaserde::ser::to_string(&v2).unwrap_or_else(|e| format!("SER-ERR {e}"));
    emit(n, "fix", s1 == s2, &s1, &s2);
}
fn p_chk<T: g::restrictions::CheckRestrictions>(n: usize, v: &T) {
    match v.check_restrictions(None) {
        Ok(()) => emit(n, "chk", false, "", ""),
        Err(e) => emit(n, "chk", true, &format!("{e}"), ""),
    }
}
"#;

pub fn synthesize(probes: &[Probe], extra_items: &str) -> String {
    let mut s = String::from(SUPPORT);
    s.push_str(extra_items);
    for (n, p) in probes.iter().enumerate() {
        s.push_str(&format!("fn probe_{n}() {{\n    let n = {n}usize;\n    begin(n);\n"));
        match p {
            Probe::Ser { expr } => s.push_str(&format!("    let v = {expr};\n    p_ser(n, &v);\n")),
            Probe::Dbg { expr } => s.push_str(&format!("    let v = {expr};\n    p_dbg(n, &v);\n")),
            Probe::De { ty, xml } => s.push_str(&format!("    p_de::<{ty}>(n, {xml:?});\n")),
            Probe::Fix { ty, expr } => s.push_str(&format!("    let v: {ty} = {expr};\n    p_fix(n, &v);\n")),
            Probe::Chk { expr } => s.push_str(&format!("    let v = {expr};\n    p_chk(n, &v);\n")),
            Probe::Raw { code } => s.push_str(code),
        }
        s.push_str("}\n");
    }
    s.push_str("fn main() {\n    let only: Option<usize> = std::env::var(\"VH_ONLY_FROM\").ok().and_then(|v| v.parse().ok());\n");
    for n in 0..probes.len() {
        s.push_str(&format!("    if only.is_none_or(|k| {n} >= k) {{ probe_{n}(); }}\n"));
    }
    s.push_str("}\n");
    s
}

pub enum Built {
    Ok,
    /// the crate does not compile; diagnostics
    CompileError(rustc::Compile),
}

pub fn build(ex: &Externs, dir: &Path, output: &str, probes: &[Probe], extra_items: &str) -> Built {
    std::fs::write(dir.join("out.rs"), output).expect("write out.rs");
    std::fs::write(dir.join("main.rs"), synthesize(probes, extra_items)).expect("write main.rs");
    let c = rustc::build_bin(ex, dir, "main.rs");
    if c.ok { Built::Ok } else { Built::CompileError(c) }
}

/// Run the built driver; a probe that does not answer within `per_probe_s` is marked hung and the
/// driver is restarted after it.
pub fn run(dir: &Path, n_probes: usize, per_probe_s: u64, env: &[(&str, String)]) -> Vec<Answer> {
    let mut answers: Vec<Answer> = (0..n_probes).map(|_| Answer { missing: true, ..Default::default() }).collect();
    let mut from = 0usize;
    let mut restarts = 0;
    while from < n_probes && restarts < 6 {
        let mut e: Vec<(&str, String)> = env.to_vec();
        e.push(("VH_ONLY_FROM", from.to_string()));
        // the whole run gets a budget proportional to the probes left; a hang shows as the last BEGIN
        let budget = per_probe_s + (n_probes - from) as u64 / 20;
        let out = rustc::run_bin(dir, budget, &e);
        let mut last_begin: Option<usize> = None;
        let mut answered_any = false;
        for line in out.stdout.lines() {
            if let Some(n) = line.strip_prefix("BEGIN ") {
                last_begin = n.trim().parse().ok();
                continue;
            }
            let Ok(v) = serde_json::from_str::<serde_json::Value>(line) else { continue };
            let Some(n) = v["n"].as_u64().map(|x| x as usize) else { continue };
            if n < n_probes {
                answers[n] = Answer {
                    kind: v["kind"].as_str().unwrap_or("").to_string(),
                    ok: v["ok"].as_bool().unwrap_or(false),
                    text: v["text"].as_str().unwrap_or("").to_string(),
                    dbg: v["dbg"].as_str().unwrap_or("").to_string(),
                    missing: false,
                    hung: false,
                };
                answered_any = true;
            }
        }
        // finished normally?
        if !out.timed_out && out.exit == Some(0) {
            break;
        }
        // died or hung inside probe `last_begin`
        match last_begin {
            Some(k) if answers[k].missing => {
                answers[k].hung = out.timed_out;
                from = k + 1;
            }
            Some(k) => from = k + 1,
            None => {
                if !answered_any {
                    break;
                }
                from += 1;
            }
        }
        restarts += 1;
    }
    answers
}
