//! Thin wrapper over zeep-lib's public API (`Files`, `FilesToRead`, `XmlReader::read_xml`,
//! `WriteXml::write_xml`). The document and error types live in private modules of zeep-lib
//! and cannot be named here, so they are kept behind closures.

use serde::{Deserialize, Serialize};
use std::cell::RefCell;
use std::error::Error as _;
use std::io::Write;
use std::panic::{AssertUnwindSafe, catch_unwind};
use std::path::{Path, PathBuf};
use zeep_lib::reader::{Files, FilesToRead, WriteXml, XmlReader};

#[derive(Clone, Debug, PartialEq, Eq, Serialize, Deserialize, Default)]
pub struct FileSet {
    pub start: String,
    /// (file name, content); the start file is one of them
    pub files: Vec<(String, String)>,
}

impl FileSet {
    pub fn single(name: &str, xml: &str) -> FileSet {
        FileSet { start: name.to_string(), files: vec![(name.to_string(), xml.to_string())] }
    }
    pub fn to_read(&self) -> FilesToRead {
        self.to_read_order(&(0..self.files.len()).collect::<Vec<_>>())
    }
    /// Register the files in the given order (the first registered one goes through `Files::new`).
    pub fn to_read_order(&self, order: &[usize]) -> FilesToRead {
        let mut it = order.iter();
        let first = &self.files[*it.next().expect("at least one file")];
        let mut files = Files::new(&first.0, &first.1);
        for i in it {
            files.add(&self.files[*i].0, &self.files[*i].1);
        }
        FilesToRead::new(&self.start, files)
    }
    pub fn total_len(&self) -> usize {
        self.files.iter().map(|f| f.1.len()).sum()
    }
    pub fn write_to_dir(&self, dir: &Path) {
        for (n, c) in &self.files {
            std::fs::write(dir.join(n), c).expect("write file set");
        }
    }
}

#[derive(Clone, Debug, PartialEq, Eq, Serialize, Deserialize)]
pub enum WriteOutcome {
    Ok,
    Err { display: String, io_in_chain: bool },
    Panic(String),
}

#[derive(Clone, Debug, PartialEq, Eq, Serialize, Deserialize)]
pub enum ReadError {
    Err(String),
    Panic(String),
}

thread_local! {
    static LAST_PANIC: RefCell<Option<String>> = const { RefCell::new(None) };
}

/// Install a quiet panic hook that records `message @ file:line` per thread.
pub fn install_panic_hook() {
    std::panic::set_hook(Box::new(|info| {
        let loc = info.location().map(|l| format!("{}:{}", l.file(), l.line())).unwrap_or_default();
        let msg = if let Some(s) = info.payload().downcast_ref::<&str>() {
            (*s).to_string()
        } else if let Some(s) = info.payload().downcast_ref::<String>() {
            s.clone()
        } else {
            "<non-string panic>".to_string()
        };
        LAST_PANIC.with(|p| *p.borrow_mut() = Some(format!("{msg} @ {loc}")));
    }));
}

pub fn take_panic() -> String {
    LAST_PANIC.with(|p| p.borrow_mut().take()).unwrap_or_else(|| "<panic>".to_string())
}

/// A parsed document, reduced to "write yourself into this sink".
pub type Doc = Box<dyn Fn(&mut dyn Write) -> WriteOutcome>;

fn doc_from<D>(d: D) -> Doc
where
    D: for<'a> WriteXml<&'a mut dyn Write> + 'static,
{
    Box::new(move |mut w: &mut dyn Write| {
        let r = catch_unwind(AssertUnwindSafe(|| d.write_xml(&mut w)));
        match r {
            Ok(Ok(())) => WriteOutcome::Ok,
            Ok(Err(e)) => {
                let mut io_in_chain = false;
                let mut cur: Option<&(dyn std::error::Error + 'static)> = Some(&e);
                while let Some(c) = cur {
                    if c.downcast_ref::<std::io::Error>().is_some() {
                        io_in_chain = true;
                    }
                    cur = c.source();
                }
                WriteOutcome::Err { display: e.to_string(), io_in_chain }
            }
            Err(_) => WriteOutcome::Panic(take_panic()),
        }
    })
}

/// `XmlReader::read_xml` on a prepared `FilesToRead`, panics caught.
pub fn read_prepared(ftr: &FilesToRead) -> Result<Doc, ReadError> {
    let r = catch_unwind(AssertUnwindSafe(|| XmlReader::read_xml(ftr)));
    match r {
        Ok(Ok(d)) => Ok(doc_from(d)),
        Ok(Err(e)) => Err(ReadError::Err(e.to_string())),
        Err(_) => Err(ReadError::Panic(take_panic())),
    }
}

pub fn read(fs: &FileSet) -> Result<Doc, ReadError> {
    if fs.files.is_empty() {
        return Err(ReadError::Err("empty file set".into()));
    }
    read_prepared(&fs.to_read())
}

#[derive(Clone, Debug, PartialEq, Eq, Serialize, Deserialize)]
pub enum GenOutcome {
    Ok(String),
    ReadErr(String),
    WriteErr(String),
    Panic(String),
}

/// read + write into memory
pub fn generate(fs: &FileSet) -> GenOutcome {
    match read(fs) {
        Err(ReadError::Err(e)) => GenOutcome::ReadErr(e),
        Err(ReadError::Panic(p)) => GenOutcome::Panic(p),
        Ok(doc) => {
            let mut buf: Vec<u8> = Vec::new();
            match doc(&mut buf) {
                WriteOutcome::Ok => match String::from_utf8(buf) {
                    Ok(s) => GenOutcome::Ok(s),
                    Err(_) => GenOutcome::WriteErr("output is not UTF-8".into()),
                },
                WriteOutcome::Err { display, .. } => GenOutcome::WriteErr(display),
                WriteOutcome::Panic(p) => GenOutcome::Panic(p),
            }
        }
    }
}

/// The directory entry point the CLI uses (`utils::read_input_file_and_xsd_files_at_path`), then
/// read + write into memory; panics caught.
pub fn generate_from_dir(start: &Path) -> GenOutcome {
    let r = catch_unwind(AssertUnwindSafe(|| zeep_lib::utils::read_input_file_and_xsd_files_at_path(start)));
    let ftr = match r {
        Ok(Ok(f)) => f,
        Ok(Err(e)) => return GenOutcome::ReadErr(format!("directory: {e}")),
        Err(_) => return GenOutcome::Panic(take_panic()),
    };
    match read_prepared(&ftr) {
        Err(ReadError::Err(e)) => GenOutcome::ReadErr(e),
        Err(ReadError::Panic(p)) => GenOutcome::Panic(p),
        Ok(doc) => {
            let mut buf: Vec<u8> = Vec::new();
            match doc(&mut buf) {
                WriteOutcome::Ok => String::from_utf8(buf).map(GenOutcome::Ok).unwrap_or_else(|_| GenOutcome::WriteErr("output is not UTF-8".into())),
                WriteOutcome::Err { display, .. } => GenOutcome::WriteErr(display),
                WriteOutcome::Panic(p) => GenOutcome::Panic(p),
            }
        }
    }
}

/// Mirror of `utils::read_input_file_and_xsd_files_at_path` that keeps the contents
/// (start file + every sibling `*.xsd`), so cases are replayable from JSON.
pub fn fileset_from_path(start: &Path) -> Option<FileSet> {
    let name = start.file_name()?.to_str()?.to_string();
    let mut files = vec![(name.clone(), std::fs::read_to_string(start).ok()?)];
    let mut sibs: Vec<PathBuf> = std::fs::read_dir(start.parent()?)
        .ok()?
        .filter_map(|e| e.ok().map(|e| e.path()))
        .filter(|p| p.is_file() && p.extension().is_some_and(|e| e == "xsd") && p != start)
        .collect();
    sibs.sort();
    for p in sibs {
        files.push((p.file_name()?.to_str()?.to_string(), std::fs::read_to_string(&p).ok()?));
    }
    Some(FileSet { start: name, files })
}

/// Every schema/WSDL shipped with the repository, as (label, file set).
pub fn repo_corpus() -> Vec<(String, FileSet)> {
    let mut out = vec![];
    let mut dirs: Vec<PathBuf> = vec![PathBuf::from("/repo/zeep-lib/test-data"), PathBuf::from("/repo/zeep-lib/test-data/exchange")];
    if let Ok(rd) = std::fs::read_dir("/repo/resources") {
        let mut v: Vec<PathBuf> = rd.filter_map(|e| e.ok().map(|e| e.path())).filter(|p| p.is_dir()).collect();
        v.sort();
        dirs.extend(v);
    }
    for d in dirs {
        let Ok(rd) = std::fs::read_dir(&d) else { continue };
        let mut starts: Vec<PathBuf> = rd
            .filter_map(|e| e.ok().map(|e| e.path()))
            .filter(|p| {
                p.is_file()
                    && p.file_name().and_then(|n| n.to_str()).is_some_and(|n| {
                        n.ends_with(".wsdl") || n.ends_with(".xsd") || n.ends_with("_wsdl.xml")
                    })
            })
            .collect();
        starts.sort();
        for s in starts {
            if let Some(fs) = fileset_from_path(&s) {
                let label = s.strip_prefix("/repo").unwrap_or(&s).display().to_string();
                out.push((label, fs));
            }
        }
    }
    out
}
