//! C05 — every WSDL operation gets correct SOAP envelopes and one client method.
use crate::common::Tier;
use crate::soap::{self, Aspect, Cfg};

pub fn run(tier: Tier) -> i32 {
    soap::run_with(
        tier,
        &Cfg {
            id: "C05",
            aspect: Aspect::Envelopes,
            rule: "generated document/literal WSDLs: 1-5 operations named in every canonical case style, input only or input+output, 0-2 header parts per direction bound to other parts of the operation's own message, body with or without parts=, part names equal to or different from element names, part elements in the WSDL's namespace or an imported one (anonymous-typed or typed global elements), soapAction absent/empty/absolute, service names in PascalCase, 1-3 files. Oracle: (1) syn: the service type has exactly one pub async method per operation, snake_case, besides `new`; (2) rustc: a driver builds every request/response envelope with complete literals of Envelope/Header/Body and binds each method as fn(&Service, ReqEnvelope) -> impl Future<Output = SoapResult<RespEnvelope or ()>>; (3) wire: each serialized request envelope is parsed by roxmltree and must be soapenv:Envelope > [soapenv:Header > bound header elements under their own QNames] > soapenv:Body > exactly the element of the bound body part, payloads compared with the expected infoset; response envelopes rendered in three surface styles must deserialize to the value built from the literal; (4) Service::new(None).location equals the port address as a URL. Non-trivial: >= 2 operations, or a header, or an imported-namespace part, or a one-way operation; distinct by file set and value tape.",
            n_quick: 120,
            n_thorough: 2000,
        },
    )
}

pub fn replay(case: &serde_json::Value) -> i32 {
    soap::replay("C05", Aspect::Envelopes, case)
}
