//! C11 — each reachable schema file is read exactly once; others never matter.
//!
//! Exhaustive enumeration of directed import graphs (self-loops included) over up to 3 (quick)
//! or 4 (thorough) files x every start file, plus proptest-generated graphs over 5-8 files;
//! oracle = BFS reachability on the model; metamorphic noise in unreachable siblings.

use crate::common::*;
use crate::worker::{self, Outcome};
use crate::zeep::FileSet;
use proptest::prelude::*;
use proptest::strategy::ValueTree;
use serde_json::json;
use std::collections::{BTreeMap, BTreeSet};

#[derive(Clone, Debug, serde::Serialize, serde::Deserialize, PartialEq, Eq)]
pub struct Graph {
    pub n: usize,
    /// edges[i] = files imported by file i, in document order (may contain i itself, may repeat)
    pub edges: Vec<Vec<usize>>,
    pub start: usize,
    pub noise: Noise,
    /// namespace URIs whose last segment (and so zeep's three-letter abbreviation) coincides
    #[serde(default)]
    pub same_suffix: bool,
    /// every file declares an xmlns prefix for each namespace it imports (as real schemas do)
    #[serde(default)]
    pub declare_prefixes: bool,
    /// files sharing one target namespace (a namespace split over several schema documents):
    /// file i declares namespace tns_of[i] (empty = each file its own)
    #[serde(default)]
    pub tns_of: Vec<usize>,
    /// includes[i] = files named by xs:include in file i (same target namespace). The pinned tree
    /// does not follow xs:include, so these files are required at most once, not exactly once.
    #[serde(default)]
    pub includes: Vec<Vec<usize>>,
}

impl Graph {
    fn nsi(&self, i: usize) -> usize {
        self.tns_of.get(i).copied().unwrap_or(i)
    }
}

#[derive(Clone, Copy, Debug, serde::Serialize, serde::Deserialize, PartialEq, Eq)]
pub enum Noise {
    /// the files of the graph as they are
    None,
    /// unreachable files removed from the set
    UnreachableRemoved,
    /// unreachable files replaced by malformed XML, plus extra unrelated siblings
    UnreachableBroken,
    /// unreachable files replaced by other valid schemas declaring clashing names
    UnreachableOtherSchema,
}

const SEGS: [&str; 8] = ["alpha", "bravo", "charlie", "delta", "echo", "foxtrot", "golf", "hotel"];

pub fn file_name(i: usize) -> String {
    format!("f{i}.xsd")
}

fn ns(i: usize, same_suffix: bool) -> String {
    if same_suffix { format!("http://example.org/{}/typ", SEGS[i]) } else { format!("http://example.org/graph/{}", SEGS[i]) }
}

pub fn components(i: usize) -> Vec<String> {
    vec![format!("Ct{i}Node"), format!("St{i}Code"), format!("El{i}Root")]
}

fn schema_text(g: &Graph, i: usize) -> String {
    let imports = &g.edges[i];
    let mut decls = String::new();
    if g.declare_prefixes {
        let mut seen = BTreeSet::new();
        for j in imports {
            if g.nsi(*j) != g.nsi(i) && seen.insert(g.nsi(*j)) {
                decls += &format!(" xmlns:p{j}=\"{}\"", ns(g.nsi(*j), g.same_suffix));
            }
        }
    }
    let mut s = format!(
        "<?xml version=\"1.0\"?>\n<xs:schema xmlns:xs=\"http://www.w3.org/2001/XMLSchema\"{1} xmlns:tns=\"{0}\"{2} targetNamespace=\"{0}\" elementFormDefault=\"qualified\">\n",
        ns(g.nsi(i), g.same_suffix),
        // odd files declare the foreign prefixes before their own one, even files after it
        if i % 2 == 1 { decls.as_str() } else { "" },
        if i % 2 == 1 { "" } else { decls.as_str() },
    );
    for j in imports {
        s += &format!("  <xs:import namespace=\"{}\" schemaLocation=\"{}\"/>\n", ns(g.nsi(*j), g.same_suffix), file_name(*j));
    }
    for j in g.includes.get(i).map(|v| v.as_slice()).unwrap_or(&[]) {
        s += &format!("  <xs:include schemaLocation=\"{}\"/>\n", file_name(*j));
    }
    s += &format!(
        "  <xs:complexType name=\"Ct{i}Node\"><xs:sequence><xs:element name=\"label\" type=\"xs:string\"/><xs:element name=\"count\" type=\"xs:int\" minOccurs=\"0\"/></xs:sequence></xs:complexType>\n  <xs:simpleType name=\"St{i}Code\"><xs:restriction base=\"xs:string\"><xs:maxLength value=\"8\"/></xs:restriction></xs:simpleType>\n  <xs:element name=\"El{i}Root\"><xs:complexType><xs:sequence><xs:element name=\"item\" type=\"xs:string\" maxOccurs=\"unbounded\"/></xs:sequence></xs:complexType></xs:element>\n</xs:schema>\n"
    );
    s
}

pub fn reachable(g: &Graph) -> BTreeSet<usize> {
    let mut seen = BTreeSet::new();
    let mut q = vec![g.start];
    while let Some(i) = q.pop() {
        if seen.insert(i) {
            for j in &g.edges[i] {
                q.push(*j);
            }
        }
    }
    seen
}

/// Files reachable over xs:import and xs:include edges together.
pub fn reachable_any(g: &Graph) -> BTreeSet<usize> {
    let mut seen = BTreeSet::new();
    let mut q = vec![g.start];
    while let Some(i) = q.pop() {
        if seen.insert(i) {
            q.extend(g.edges[i].iter().copied());
            q.extend(g.includes.get(i).into_iter().flatten().copied());
        }
    }
    seen
}

fn has_includes(g: &Graph) -> bool {
    g.includes.iter().any(|v| !v.is_empty())
}

pub fn render(g: &Graph) -> FileSet {
    let reach = reachable(g);
    let mut files = vec![];
    for i in 0..g.n {
        let name = file_name(i);
        if reach.contains(&i) || g.noise == Noise::None {
            files.push((name, schema_text(g, i)));
            continue;
        }
        match g.noise {
            Noise::None => unreachable!(),
            Noise::UnreachableRemoved => {}
            Noise::UnreachableBroken => files.push((name, "<xs:schema xmlns:xs=\"http://www.w3.org/2001/XMLSchema\"><xs:complexType name=\"Broken\"><oops></xs:schema".to_string())),
            Noise::UnreachableOtherSchema => {
                // a valid schema that re-declares names of reachable files in yet another namespace
                let r = *reach.iter().next().unwrap();
                files.push((
                    name,
                    format!(
                        "<?xml version=\"1.0\"?>\n<xs:schema xmlns:xs=\"http://www.w3.org/2001/XMLSchema\" targetNamespace=\"http://example.org/graph/zulu{i}\"><xs:complexType name=\"Ct{r}Node\"><xs:sequence><xs:element name=\"other\" type=\"xs:long\"/></xs:sequence></xs:complexType><xs:complexType name=\"Stray{i}\"><xs:sequence/></xs:complexType></xs:schema>\n"
                    ),
                ));
            }
        }
    }
    if g.noise == Noise::UnreachableOtherSchema {
        // siblings whose names differ from reachable files' names in letter case only (distinct files
        // on a case-sensitive file system), holding yet another schema
        for r in reach.iter().take(2) {
            let upper = file_name(*r).to_uppercase();
            let mixed = format!("F{}", &file_name(*r)[1..]);
            for (k, name) in [upper, mixed].into_iter().enumerate() {
                files.push((
                    name,
                    format!("<?xml version=\"1.0\"?>\n<xs:schema xmlns:xs=\"http://www.w3.org/2001/XMLSchema\" targetNamespace=\"http://example.org/graph/yankee{r}{k}\"><xs:complexType name=\"Stray{r}Case{k}\"><xs:sequence/></xs:complexType></xs:schema>\n"),
                ));
            }
        }
    }
    if g.noise == Noise::UnreachableBroken {
        files.push(("zz-notes.xsd".to_string(), "this is not XML at all \u{0} <<<".to_string()));
        files.push(("zz-other.xsd".to_string(), "<?xml version=\"1.0\"?><html><body>not a schema</body></html>".to_string()));
    }
    FileSet { start: file_name(g.start), files }
}

fn shape_classes(g: &Graph) -> Vec<&'static str> {
    let mut c = vec![];
    if has_includes(g) {
        c.push("shape.include-edge");
        if reachable_any(g).len() > reachable(g).len() {
            c.push("shape.reachable-through-include-only");
        }
    }
    let reach = reachable(g);
    if (0..g.n).any(|i| g.edges[i].contains(&i) && reach.contains(&i)) {
        c.push("self-import");
    }
    // cycle among reachable nodes (length >= 2)
    let mut has_cycle = false;
    for &i in &reach {
        // DFS from i's successors back to i
        let mut seen = BTreeSet::new();
        let mut q: Vec<usize> = g.edges[i].iter().copied().filter(|j| *j != i).collect();
        while let Some(j) = q.pop() {
            if j == i {
                has_cycle = true;
                break;
            }
            if seen.insert(j) {
                q.extend(g.edges[j].iter().copied());
            }
        }
    }
    if has_cycle {
        c.push("cycle");
    }
    // diamond: some reachable node with in-degree >= 2 from distinct reachable nodes
    let mut indeg: BTreeMap<usize, BTreeSet<usize>> = BTreeMap::new();
    for &i in &reach {
        for &j in &g.edges[i] {
            if i != j {
                indeg.entry(j).or_default().insert(i);
            }
        }
    }
    if indeg.values().any(|s| s.len() >= 2) {
        c.push("diamond");
    }
    if reach.len() < g.n {
        c.push("unreachable-sibling");
    }
    if g.same_suffix {
        c.push("colliding-namespace-abbreviations");
    }
    if g.declare_prefixes {
        c.push("importer-declares-prefixes");
    }
    if (0..g.n).any(|i| (0..i).any(|j| g.nsi(i) == g.nsi(j) && reach.contains(&i) && reach.contains(&j))) {
        c.push("namespace-split-over-files");
    }
    if (0..g.n).any(|i| {
        let mut e = g.edges[i].clone();
        e.sort();
        e.windows(2).any(|w| w[0] == w[1])
    }) {
        c.push("duplicate-import");
    }
    c
}

/// Names of all `pub struct` items anywhere in the emitted file (syn; text scan as fallback).
pub fn struct_names(output: &str) -> Vec<String> {
    fn walk(items: &[syn::Item], out: &mut Vec<String>) {
        for it in items {
            match it {
                syn::Item::Struct(s) => out.push(s.ident.to_string()),
                syn::Item::Mod(m) => {
                    if let Some((_, items)) = &m.content {
                        walk(items, out);
                    }
                }
                _ => {}
            }
        }
    }
    let mut out = vec![];
    // the run-time helper that ends every output is the same text each time and holds no component
    let output = &output[..output.find("\npub mod error {").unwrap_or(output.len())];
    let parsed = syn::parse_file(output);
    match &parsed {
        Ok(f) => walk(&f.items, &mut out),
        Err(_) => {
            for l in output.lines() {
                if let Some(rest) = l.trim_start().strip_prefix("pub struct ") {
                    let name: String = rest.chars().take_while(|c| c.is_alphanumeric() || *c == '_').collect();
                    out.push(name);
                }
            }
        }
    }
    drop(parsed);
    // release proc-macro2's per-thread source map (see outscan::scan)
    proc_macro2::extra::invalidate_current_thread_spans();
    out
}

/// None = as required.
fn judge(g: &Graph, out: &Outcome) -> Option<(String, String)> {
    let text = match out {
        Outcome::Ok { output, .. } => output,
        Outcome::Killed { signal, stderr } => {
            let why = if stderr.contains("overflow") { "stack-overflow".to_string() } else { format!("signal-{signal}") };
            return Some((format!("did-not-terminate-normally:{why}"), stderr.clone()));
        }
        Outcome::Timeout { limit_ms } => return Some(("timeout".into(), format!("no answer within {limit_ms} ms"))),
        Outcome::Panic { msg } => return Some((format!("panic:{}", crate::c15::panic_site(msg)), msg.clone())),
        Outcome::ReadErr { msg, .. } | Outcome::WriteErr { msg, .. } => {
            let class: String = msg.split(':').take(2).collect::<Vec<_>>().join(":");
            return Some((format!("rejected:{class}"), msg.clone()));
        }
    };
    let names = struct_names(text);
    let mut count: BTreeMap<&str, usize> = BTreeMap::new();
    for n in &names {
        *count.entry(n.as_str()).or_insert(0) += 1;
    }
    let reach = reachable(g);
    let reach_any = reachable_any(g);
    for i in 0..g.n {
        for c in components(i) {
            let k = count.get(c.as_str()).copied().unwrap_or(0);
            if !reach.contains(&i) && reach_any.contains(&i) {
                // reachable only through xs:include: the pinned tree ignores it, a tree that follows
                // includes emits it; either way never more than once
                if k > 1 {
                    return Some(("included-component-duplicated".into(), format!("{c} of {} appears {k} times", file_name(i))));
                }
                continue;
            }
            if reach.contains(&i) {
                if k == 0 {
                    return Some(("reachable-component-missing".into(), format!("{c} of {} is reachable but absent", file_name(i))));
                }
                if k > 1 {
                    return Some(("reachable-component-duplicated".into(), format!("{c} of {} appears {k} times", file_name(i))));
                }
            } else if k > 0 {
                return Some(("unreachable-component-present".into(), format!("{c} of {} is unreachable but present", file_name(i))));
            }
        }
    }
    if names.iter().any(|n| n.starts_with("Stray") || n == "Broken") {
        return Some(("noise-component-present".into(), "a component of a noise sibling was emitted".into()));
    }
    None
}

fn enumerate(n: usize) -> Vec<Graph> {
    let mut out = vec![];
    let bits = n * n;
    for mask in 0u32..(1u32 << bits) {
        let mut edges = vec![vec![]; n];
        for i in 0..n {
            for j in 0..n {
                if mask >> (i * n + j) & 1 == 1 {
                    edges[i].push(j);
                }
            }
        }
        for start in 0..n {
            // the namespace style rotates over the enumeration so that all four styles are met
            // by every small shape class (each graph x start also appears in the plain style)
            out.push(Graph { n, edges: edges.clone(), start, noise: Noise::None, same_suffix: false, declare_prefixes: false, tns_of: vec![], includes: vec![] });
            let k = (mask as usize + start) % 3;
            out.push(Graph { n, edges: edges.clone(), start, noise: Noise::None, same_suffix: k != 1, declare_prefixes: k != 0, tns_of: vec![], includes: vec![] });
            if n >= 2 {
                // a namespace split over two files: the last file shares the namespace of file 0 or 1
                let mut tns_of: Vec<usize> = (0..n).collect();
                tns_of[n - 1] = (mask as usize / 3) % (n - 1);
                out.push(Graph { n, edges: edges.clone(), start, noise: Noise::None, same_suffix: k != 2, declare_prefixes: k != 1, tns_of, includes: vec![] });
            }
        }
    }
    out
}

fn arb_graph() -> impl Strategy<Value = Graph> {
    (5usize..=8)
        .prop_flat_map(|n| {
            (
                Just(n),
                proptest::collection::vec(proptest::collection::vec(0usize..n, 0..4), n),
                0usize..n,
                prop_oneof![Just(Noise::None), Just(Noise::UnreachableRemoved), Just(Noise::UnreachableBroken), Just(Noise::UnreachableOtherSchema)],
                any::<bool>(),
                any::<bool>(),
                prop_oneof![Just(vec![]), proptest::collection::vec(0usize..n, n)],
            )
        })
        .prop_map(|(n, edges, start, noise, same_suffix, declare_prefixes, tns_of)| Graph { n, edges, start, noise, same_suffix, declare_prefixes, tns_of, includes: vec![] })
}

/// Directory entry point (the one the CLI uses): an unreachable sibling `.xsd` that is not text
/// (invalid UTF-8) must not change the outcome. Some(detail) = it did.
fn non_text_sibling_probe(g: &Graph) -> Option<String> {
    use crate::zeep::GenOutcome;
    let dir = scratch_dir("c11-dir");
    let fs = render(g);
    fs.write_to_dir(&dir);
    let start = dir.join(&fs.start);
    let before = crate::zeep::generate_from_dir(&start);
    std::fs::write(dir.join("zz-binary.xsd"), [0xffu8, 0xfe, 0x00, 0x41, 0xc3, 0x28]).unwrap();
    let after = crate::zeep::generate_from_dir(&start);
    let _ = std::fs::remove_dir_all(&dir);
    match (&before, &after) {
        (GenOutcome::Ok(a), GenOutcome::Ok(b)) if a == b => None,
        (GenOutcome::Ok(_), GenOutcome::Ok(_)) => Some("output text differs once the sibling exists".into()),
        (GenOutcome::Ok(_), GenOutcome::ReadErr(e)) | (GenOutcome::Ok(_), GenOutcome::WriteErr(e)) => Some(format!("generation succeeds without the sibling and fails with it: {e}")),
        (GenOutcome::Ok(_), GenOutcome::Panic(e)) => Some(format!("generation succeeds without the sibling and panics with it: {e}")),
        _ => None, // not generated without the sibling either: nothing to compare
    }
}

pub fn run(tier: Tier) -> i32 {
    let findings = Findings::load();
    findings.print_fixed("C11");
    let mut ev = Evidence::new(
        "C11",
        tier,
        "exploration",
        "import graphs: EXHAUSTIVE over all directed graphs with self-loops on 1..=3 files (quick) / 1..=4 files (thorough) x every start file, each file declaring a complex type, a simple type and an anonymous-typed global element with names unique to it, in four namespace styles (distinct or colliding three-letter abbreviations x importer declares prefixes for what it imports or not) and with one namespace split over two files; proptest-generated graphs on 5-8 files with repeated imports; every 3-file graph of one namespace with one or two xs:include edges added (include-only files: at most once, no noise variants); every graph with unreachable files is also run with those files removed / replaced by malformed and non-schema XML / replaced by other schemas (together with siblings whose names differ from reachable files' names in letter case only), and the output must be byte-identical; acyclic graphs are also read through the directory entry point with and without a non-text (invalid UTF-8) unreachable sibling. Each generation runs in an isolated worker process (exit class + wall time). Oracle: BFS reachability => expected multiset of struct names (syn). Non-trivial: graph with a cycle, a self-import, a diamond or an unreachable sibling; distinct by (edges, start, noise).",
    );
    ev.assume("struct names are read from the output with syn (text scan if the output does not parse)");
    let nmax = tier.pick(3, 4);
    let mut graphs: Vec<Graph> = vec![];
    for n in 1..=nmax {
        graphs.extend(enumerate(n));
    }
    let exhaustive_n = graphs.len();
    // xs:include edges: every graph on 3 files of one namespace with one or two include edges added
    // (all placements), so a file is met over an include and an import path in every order
    let mut include_graphs = vec![];
    for base in enumerate(3).into_iter().filter(|g| g.tns_of.is_empty() && !g.same_suffix && !g.declare_prefixes) {
        let step = tier.pick(7, 1);
        for inc_mask in (1u32..512).step_by(step) {
            if inc_mask.count_ones() > 2 {
                continue;
            }
            let mut includes = vec![vec![]; 3];
            for i in 0..3 {
                for j in 0..3 {
                    if inc_mask >> (i * 3 + j) & 1 == 1 {
                        includes[i].push(j);
                    }
                }
            }
            let mut g = base.clone();
            g.tns_of = vec![0, 0, 0];
            g.includes = includes;
            include_graphs.push(g);
        }
    }
    ev.extra.insert("include_graphs".into(), json!(include_graphs.len()));
    graphs.extend(include_graphs);
    let mut runner = crate::common::runner("C11");
    let strat = arb_graph();
    let mut trees = vec![];
    for _ in 0..tier.pick(300, 6000) {
        let t = strat.new_tree(&mut runner).unwrap();
        graphs.push(t.current());
        trees.push(t);
    }
    // The graphs are judged in chunks (a thorough run has more than a million generations and every
    // outcome carries its output text). A chunk holds base graphs together with their metamorphic
    // variants: the same graph with the unreachable files removed / broken / replaced.
    let base_len = graphs.len();
    let mut reported = BTreeSet::new();
    let mut slowest = 0u64;
    let chunk = 20_000usize;
    let mut lo = 0usize;
    while lo < base_len {
        let hi = (lo + chunk).min(base_len);
        let mut batch: Vec<Graph> = graphs[lo..hi].to_vec();
        let mut variant_of: Vec<(usize, Noise)> = vec![]; // index into the batch
        for bi in 0..(hi - lo) {
            let gi = lo + bi;
            let g = &graphs[gi];
            if g.noise == Noise::None && !has_includes(g) && reachable(g).len() < g.n {
                // exhaustive part: all three variants for n <= 3, a rotating one for n = 4
                let vs: Vec<Noise> = if g.n <= 3 || gi >= exhaustive_n {
                    vec![Noise::UnreachableRemoved, Noise::UnreachableBroken, Noise::UnreachableOtherSchema]
                } else {
                    vec![[Noise::UnreachableRemoved, Noise::UnreachableBroken, Noise::UnreachableOtherSchema][gi % 3]]
                };
                for v in vs {
                    variant_of.push((bi, v));
                }
            }
        }
        let n_base = batch.len();
        for (bi, v) in &variant_of {
            let mut g = batch[*bi].clone();
            g.noise = *v;
            batch.push(g);
        }
        let sets: Vec<FileSet> = batch.iter().map(render).collect();
        let outs = worker::run_all(&sets, 16);
        drop(sets);
        for (i, (g, out)) in batch.iter().zip(&outs).enumerate() {
            let classes = shape_classes(g);
            ev.case(&format!("{g:?}"), !classes.is_empty());
            for c in &classes {
                ev.class(c);
            }
            ev.class(&format!("outcome.{}", out.class()));
            if let Outcome::Ok { ms, .. } = out {
                slowest = slowest.max(*ms);
            }
            let gi = lo + i;
            if i < n_base && (gi == 40 || gi == exhaustive_n + 1 || gi == exhaustive_n / 2) {
                ev.sample(json!({"graph": g, "reachable": reachable(g), "outcome": out.class()}));
            }
            if let Some((sig, detail)) = judge(g, out) {
                let sig = format!("C11 {sig}");
                if reported.insert(sig.clone()) {
                    // smallest graph with this signature: graphs are enumerated small-first, so the first hit is minimal
                    route_failure(&mut ev, &findings, "import-graph", &sig, json!({"graph": g, "detail": detail, "files": render(g)}));
                } else {
                    ev.class("further-failing-graphs");
                }
            }
        }
        // metamorphic byte equality
        for (k, (bi, v)) in variant_of.iter().enumerate() {
            let a = &outs[*bi];
            let b = &outs[n_base + k];
            ev.class("metamorphic-pairs");
            if a.output().is_some() && a.output() != b.output() {
                let sig = format!("C11 unreachable-sibling-changes-output:{v:?}");
                if reported.insert(sig.clone()) {
                    let mut g = batch[*bi].clone();
                    g.noise = *v;
                    route_failure(&mut ev, &findings, "import-graph-metamorphic", &sig, json!({"graph": g, "detail": format!("output with noise {v:?} differs from output without ({} vs {})", b.class(), a.class())}));
                }
            }
        }
        lo = hi;
    }
    // directory entry point with a non-text unreachable sibling, on the acyclic graphs of up to 3 files
    let mut probed = 0usize;
    for g in graphs[..exhaustive_n].iter().filter(|g| g.n <= 3 && g.tns_of.is_empty() && !g.same_suffix && !g.declare_prefixes && g.edges.iter().enumerate().all(|(i, e)| e.iter().all(|j| *j > i))) {
        probed += 1;
        ev.class("directory-probe.non-text-sibling");
        if let Some(detail) = non_text_sibling_probe(g) {
            let sig = "C11 unreachable-sibling-changes-output:NonTextSibling".to_string();
            if reported.insert(sig.clone()) {
                route_failure(&mut ev, &findings, "import-graph-directory", &sig, json!({"graph": g, "probe": "non-text-sibling", "detail": detail}));
            }
        }
    }
    ev.extra.insert("directory_probes".into(), json!(probed));
    ev.exhaustive = Some(true);
    ev.extra.insert("exhaustive_graphs".into(), json!(exhaustive_n));
    ev.extra.insert("exhaustive_up_to_files".into(), json!(nmax));
    ev.extra.insert("slowest_generation_ms".into(), json!(slowest));
    drop(trees);
    ev.finish()
}

pub fn replay(case: &serde_json::Value) -> i32 {
    let g: Graph = serde_json::from_value(case["graph"].clone()).expect("C11 replay graph");
    if case["probe"] == "non-text-sibling" {
        let bad = non_text_sibling_probe(&g);
        println!("graph {g:?}\ndirectory probe -> {bad:?}");
        if bad.is_some() {
            println!("VIOLATION property=C11 replay=(this file)");
            return 1;
        }
        return 0;
    }
    let out = worker::run_single(&render(&g));
    let mut bad = judge(&g, &out);
    if bad.is_none() && g.noise != Noise::None {
        let mut g0 = g.clone();
        g0.noise = Noise::None;
        let base = worker::run_single(&render(&g0));
        if base.output().is_some() && base.output() != out.output() {
            bad = Some(("unreachable-sibling-changes-output".into(), String::new()));
        }
    }
    println!("graph {g:?}\noutcome {} -> {bad:?}", out.class());
    if bad.is_some() {
        println!("VIOLATION property=C11 replay=(this file)");
        1
    } else {
        0
    }
}
