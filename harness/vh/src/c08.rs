//! C08 — a derived type carries its base type's members first, then its own.

use crate::c02::{self, RunCfg};
use crate::common::Tier;
use crate::expect::ExpStruct;
use crate::pipeline::Case;
use crate::sgen::Profile;

fn derived(es: &ExpStruct) -> bool {
    es.fields.iter().any(|f| f.inherited)
}

pub fn run(tier: Tier) -> i32 {
    c02::run_with(
        tier,
        &RunCfg {
            id: "C08",
            rule: "extension-forest profile of the supported-subset grammar: most complex types and anonymous-typed elements extend an earlier-ranked complex type (chains of depth 1-4+, fan-out), the base declared before or after the derived type (document order is permuted), in the same file or in an imported file of another namespace, with own content empty / sequence / nested sequence / choice / attributes and bases that carry attributes. Oracle on every derived struct: syn member-by-member comparison with the reference mapping (base members first in their order, elements and attributes, then the extension's elements, then its attributes), the typed driver (rustc) on a complete literal, and the yaserde prefix of every element member must be bound to the namespace of the schema that declared it. Non-trivial: derivation depth >= 2, or a base in another file, or a base declared after the derived type, or attributes in the extension; distinct by rendered file set.",
            salt: "C08",
            n_quick: 400,
            n_thorough: 5000,
            tune: &|p: &mut Profile| {
                p.wsdl = 0;
                p.ext_bias = true;
                p.kind_mix = true;
                p.xml_lang = 1;
                // the same local name in several namespaces: an (unprefixed) base must still be the own one
                p.collide = true;
                p.seq_in_choice = true;
                p.colliding_abbrev = true;
            },
            only: Some(&derived),
            extra: Some(&c02::member_namespaces),
            nontrivial: &|case: &Case| {
                let f = &case.stats.features;
                f.contains("extension.cross-file") || f.contains("extension.attribute") || (f.contains("extension") && f.contains("order.forward-references")) || {
                    // depth >= 2
                    case.model.files.iter().any(|file| {
                        file.comps.iter().any(|c| match &c.kind {
                            crate::model::CompKind::Complex(b) | crate::model::CompKind::ElementAnon(b) => b.base.is_some_and(|q| matches!(&case.model.comp(q).kind, crate::model::CompKind::Complex(bb) if bb.base.is_some())),
                            _ => false,
                        })
                    })
                }
            },
        },
    )
}

pub fn replay(case: &serde_json::Value) -> i32 {
    c02::replay_generic("C08", case, Some(&derived), Some(&c02::member_namespaces))
}
