//! Shared generate -> emit -> compile plumbing for the pipeline properties.

use crate::common::*;
use crate::sgen::{self, BuildStats, Profile, RawModel};
use crate::model::{self, Model};
use crate::rustc::{self, Compile, Externs};
use crate::worker::{self, Outcome};
use crate::zeep::FileSet;
use proptest::strategy::{Strategy, ValueTree};
use rayon::prelude::*;
use std::path::{Path, PathBuf};

pub struct Case {
    pub raw: RawModel,
    pub model: Model,
    pub stats: BuildStats,
    pub files: FileSet,
}

pub fn make_case(raw: RawModel, profile: &Profile) -> Case {
    let (model, stats) = sgen::build(&raw, profile);
    let files = model::render(&model);
    Case { raw, model, stats, files }
}

/// Generate `n` cases with the given salt; the value trees are returned for shrinking.
pub fn generate(n: usize, salt: &str, profile: &Profile) -> (Vec<Case>, Vec<Box<dyn ValueTree<Value = RawModel>>>) {
    let mut runner = crate::common::runner(salt);
    let strat = sgen::arb_raw(profile.max_files).boxed();
    let mut cases = vec![];
    let mut trees: Vec<Box<dyn ValueTree<Value = RawModel>>> = vec![];
    for _ in 0..n {
        let t = strat.new_tree(&mut runner).expect("generate model");
        cases.push(make_case(t.current(), profile));
        trees.push(Box::new(t));
    }
    (cases, trees)
}

/// Run zeep on every case in isolated workers.
pub fn emit_all(cases: &[Case]) -> Vec<Outcome> {
    let sets: Vec<FileSet> = cases.iter().map(|c| c.files.clone()).collect();
    worker::run_all(&sets, 16)
}

pub fn case_dir(scratch: &Path, i: usize) -> PathBuf {
    let d = scratch.join(format!("case{i}"));
    let _ = std::fs::remove_dir_all(&d);
    std::fs::create_dir_all(&d).expect("case dir");
    d
}

/// Write `out.rs` + a one-line crate root and type-check it against the six documented crates.
pub fn compile_output(ex: &Externs, dir: &Path, output: &str, extra_root: &str) -> Compile {
    std::fs::write(dir.join("out.rs"), output).expect("write out.rs");
    std::fs::write(dir.join("lib.rs"), format!("#[path = \"out.rs\"]\npub mod g;\n{extra_root}")).expect("write lib.rs");
    rustc::check_crate(ex, dir, "lib.rs")
}

/// Compile all accepted outputs in parallel. `extra(i)` may add driver code to the crate root.
pub fn compile_all(ex: &Externs, scratch: &Path, outs: &[Outcome], extra: &(dyn Fn(usize) -> String + Sync)) -> Vec<Option<Compile>> {
    outs.par_iter()
        .enumerate()
        .map(|(i, o)| {
            let text = o.output()?;
            let dir = case_dir(scratch, i);
            let c = compile_output(ex, &dir, text, &extra(i));
            let _ = std::fs::remove_dir_all(&dir);
            Some(c)
        })
        .collect()
}

pub fn features_json(stats: &BuildStats) -> serde_json::Value {
    serde_json::json!({"features": stats.features, "masked": stats.masked})
}

pub fn count_features(ev: &mut Evidence, stats: &BuildStats) {
    for f in &stats.features {
        ev.class(&format!("feature.{f}"));
    }
    for (k, v) in &stats.masked {
        ev.class_n(&format!("excluded_by_gate.{k}"), *v);
    }
}
