//! Shared plumbing: seeds, proptest runners, evidence files, violation / replay files,
//! known-findings file, shrinking helper.

use proptest::strategy::ValueTree;
use proptest::test_runner::{Config, RngSeed, TestRunner};
use serde_json::{Map, Value, json};
use std::collections::{BTreeMap, BTreeSet};
use std::path::{Path, PathBuf};
use std::time::Instant;

pub const VERIF: &str = "/verif";

#[derive(Clone, Copy, PartialEq, Eq, Debug)]
pub enum Tier {
    Quick,
    Thorough,
}

impl Tier {
    pub fn name(self) -> &'static str {
        match self {
            Tier::Quick => "quick",
            Tier::Thorough => "thorough",
        }
    }
    pub fn pick<T>(self, q: T, t: T) -> T {
        match self {
            Tier::Quick => q,
            Tier::Thorough => t,
        }
    }
}

pub fn seed() -> u64 {
    std::env::var("VERIF_SEED")
        .ok()
        .and_then(|s| s.trim().parse::<i64>().ok())
        .map(|v| v as u64)
        .unwrap_or(0)
}

/// FNV-1a, stable across processes (std's DefaultHasher is not guaranteed to be).
pub fn hash64(s: &str) -> u64 {
    let mut h: u64 = 0xcbf29ce484222325;
    for b in s.as_bytes() {
        h ^= u64::from(*b);
        h = h.wrapping_mul(0x100000001b3);
    }
    h
}

pub fn runner(salt: &str) -> TestRunner {
    let s = seed() ^ hash64(salt);
    TestRunner::new(Config {
        rng_seed: RngSeed::Fixed(s),
        failure_persistence: None,
        cases: 256,
        max_shrink_iters: 4096,
        ..Config::default()
    })
}

/// Monotone index mapping so that shrinking the raw u16 moves towards index 0.
pub fn idx(raw: u16, len: usize) -> usize {
    if len == 0 {
        return 0;
    }
    ((raw as usize) * len) >> 16
}

/// Shrink a failing value tree against `fails` (true = still fails the same way).
/// Returns the smallest failing value found within `max_steps` evaluations.
pub fn shrink<T: ValueTree>(tree: &mut T, mut fails: impl FnMut(&T::Value) -> bool, max_steps: usize) -> T::Value {
    let mut best = tree.current();
    let mut steps = 0usize;
    'outer: while steps < max_steps {
        if !tree.simplify() {
            break;
        }
        loop {
            steps += 1;
            let v = tree.current();
            if fails(&v) {
                best = v;
                break;
            }
            if steps >= max_steps || !tree.complicate() {
                break 'outer;
            }
        }
    }
    best
}

// ---------------------------------------------------------------------------------------------
// Evidence

pub struct Evidence {
    pub id: String,
    pub tier: Tier,
    pub level: &'static str,
    pub evaluations: u64,
    nontrivial: BTreeSet<u64>,
    pub rule: String,
    pub samples: Vec<Value>,
    pub classes: BTreeMap<String, u64>,
    pub extra: Map<String, Value>,
    pub assumptions: Vec<String>,
    pub violations: u64,
    pub known: Vec<String>,
    pub exhaustive: Option<bool>,
    pub inconclusive: Option<String>,
    start: Instant,
}

impl Evidence {
    pub fn new(id: &str, tier: Tier, level: &'static str, rule: &str) -> Self {
        Evidence {
            id: id.to_string(),
            tier,
            level,
            evaluations: 0,
            nontrivial: BTreeSet::new(),
            rule: rule.to_string(),
            samples: vec![],
            classes: BTreeMap::new(),
            extra: Map::new(),
            assumptions: vec![],
            violations: 0,
            known: vec![],
            exhaustive: None,
            inconclusive: None,
            start: Instant::now(),
        }
    }

    /// Count one evaluated case; `key` identifies it for distinctness, `nontrivial` per the rule.
    pub fn case(&mut self, key: &str, nontrivial: bool) {
        self.evaluations += 1;
        if nontrivial {
            self.nontrivial.insert(hash64(key));
        }
    }
    pub fn case_h(&mut self, key: u64, nontrivial: bool) {
        self.evaluations += 1;
        if nontrivial {
            self.nontrivial.insert(key);
        }
    }
    pub fn class(&mut self, name: &str) {
        *self.classes.entry(name.to_string()).or_insert(0) += 1;
    }
    pub fn class_n(&mut self, name: &str, n: u64) {
        *self.classes.entry(name.to_string()).or_insert(0) += n;
    }
    pub fn sample(&mut self, v: Value) {
        if self.samples.len() < 6 {
            self.samples.push(v);
        }
    }
    pub fn assume(&mut self, s: &str) {
        self.assumptions.push(s.to_string());
    }
    pub fn nontrivial_count(&self) -> usize {
        self.nontrivial.len()
    }

    /// Write /verif/evidence/<id>.json and return the process exit code.
    pub fn finish(mut self) -> i32 {
        let wall = self.start.elapsed().as_secs_f64();
        let mut cov = Map::new();
        cov.insert("evaluations".into(), json!(self.evaluations));
        cov.insert("distinct_nontrivial".into(), json!(self.nontrivial.len()));
        cov.insert("rule".into(), json!(self.rule));
        if self.samples.is_empty() {
            self.samples.push(json!("(no case was generated)"));
        }
        cov.insert("samples".into(), Value::Array(self.samples.clone()));
        cov.insert("classes".into(), json!(self.classes));
        if let Some(e) = self.exhaustive {
            cov.insert("exhaustive".into(), json!(e));
        }
        cov.insert("known_findings_reported".into(), json!(self.known));
        if let Some(i) = &self.inconclusive {
            cov.insert("inconclusive".into(), json!(i));
        }
        for (k, v) in &self.extra {
            cov.insert(k.clone(), v.clone());
        }
        let doc = json!({
            "property_id": self.id,
            "tier": self.tier.name(),
            "seed": seed() as i64,
            "level": self.level,
            "coverage": Value::Object(cov),
            "assumptions": self.assumptions,
            "wall_s": (wall * 1000.0).round() / 1000.0,
            "violations": self.violations,
        });
        let dir = Path::new(VERIF).join("evidence");
        let _ = std::fs::create_dir_all(&dir);
        let path = dir.join(format!("{}.json", self.id));
        std::fs::write(&path, serde_json::to_string_pretty(&doc).unwrap() + "\n").expect("write evidence");
        println!(
            "[{}] tier={} seed={} evaluations={} distinct_nontrivial={} violations={} known_findings={} wall={:.1}s",
            self.id,
            self.tier.name(),
            seed(),
            self.evaluations,
            self.nontrivial.len(),
            self.violations,
            self.known.len(),
            wall
        );
        for (k, v) in &self.classes {
            println!("    class {k}: {v}");
        }
        if self.violations > 0 {
            1
        } else if let Some(why) = &self.inconclusive {
            println!("INCONCLUSIVE property={} {}", self.id, why);
            2
        } else {
            0
        }
    }

    /// Record a violation: writes the replay file and prints the VIOLATION line.
    pub fn violation(&mut self, kind: &str, signature: &str, case: Value) -> PathBuf {
        self.violations += 1;
        let body = json!({
            "property": self.id,
            "kind": kind,
            "signature": signature,
            "case": case,
        });
        let text = serde_json::to_string_pretty(&body).unwrap();
        let h = hash64(&text);
        let dir = Path::new(VERIF).join("replays");
        let _ = std::fs::create_dir_all(&dir);
        let path = dir.join(format!("{}-{:016x}.json", self.id, h));
        std::fs::write(&path, text + "\n").expect("write replay");
        println!("VIOLATION property={} replay={}", self.id, path.display());
        println!("    signature: {signature}");
        path
    }

    pub fn known_finding(&mut self, f: &Finding) {
        let line = format!("KNOWN-FINDING: property={} {} [{}]", self.id, f.what, f.id);
        if !self.known.contains(&f.id) {
            self.known.push(f.id.clone());
            println!("{line}");
        }
    }
}

// ---------------------------------------------------------------------------------------------
// Known findings (committed file, read-only at run time)

#[derive(Clone, Debug, serde::Deserialize)]
pub struct Finding {
    pub id: String,
    pub status: String, // "open" | "fixed"
    pub properties: Vec<String>,
    #[serde(default)]
    pub signatures: Vec<String>,
    pub what: String,
    #[serde(default)]
    pub repro: Option<String>,
    /// generator feature tags masked in the main search while this finding is open
    #[serde(default)]
    pub gates: Vec<String>,
    #[serde(default)]
    pub fixed_by: Option<String>,
}

#[derive(Clone, Debug, Default, serde::Deserialize)]
pub struct Findings {
    pub findings: Vec<Finding>,
}

impl Findings {
    pub fn load() -> Findings {
        let p = Path::new(VERIF).join("known_findings.json");
        match std::fs::read_to_string(&p) {
            Ok(t) => serde_json::from_str(&t).expect("known_findings.json must parse"),
            Err(_) => Findings::default(),
        }
    }

    /// Open finding of `prop` with exactly this signature.
    pub fn open_match(&self, prop: &str, signature: &str) -> Option<&Finding> {
        self.findings.iter().find(|f| {
            f.status == "open" && f.properties.iter().any(|p| p == prop) && f.signatures.iter().any(|s| s == signature)
        })
    }

    pub fn print_fixed(&self, prop: &str) {
        for f in &self.findings {
            if f.status == "fixed" && f.properties.iter().any(|p| p == prop) {
                println!(
                    "fixed: property={} {} {}",
                    prop,
                    f.fixed_by.as_deref().unwrap_or("?"),
                    f.what
                );
            }
        }
    }
}

/// Route a failure: known finding (exact signature of an open entry) or violation.
pub fn route_failure(ev: &mut Evidence, findings: &Findings, kind: &str, signature: &str, case: Value) {
    if let Some(f) = findings.open_match(&ev.id.clone(), signature) {
        let f = f.clone();
        ev.known_finding(&f);
        ev.class("known-finding-hit");
    } else {
        ev.violation(kind, signature, case);
    }
}

pub fn scratch_dir(tag: &str) -> PathBuf {
    let p = Path::new(VERIF)
        .join("harness/target/scratch")
        .join(format!("{}-{}", tag, std::process::id()));
    let _ = std::fs::remove_dir_all(&p);
    std::fs::create_dir_all(&p).expect("scratch dir");
    p
}

// ---------------------------------------------------------------------------------------------
// Watchdog: a check that stops making progress (a hang inside yaserde, a stuck child) ends
// INCONCLUSIVE (exit 2), never as a violation.

pub struct Watchdog {
    progress: std::sync::Arc<std::sync::atomic::AtomicU64>,
    stop: std::sync::Arc<std::sync::atomic::AtomicBool>,
}

impl Watchdog {
    pub fn start(id: &str, stall_secs: u64) -> Watchdog {
        use std::sync::atomic::Ordering;
        let progress = std::sync::Arc::new(std::sync::atomic::AtomicU64::new(0));
        let stop = std::sync::Arc::new(std::sync::atomic::AtomicBool::new(false));
        let (p, s, id) = (progress.clone(), stop.clone(), id.to_string());
        std::thread::spawn(move || {
            let mut last = p.load(Ordering::Relaxed);
            let mut since = Instant::now();
            loop {
                std::thread::sleep(std::time::Duration::from_millis(500));
                if s.load(Ordering::Relaxed) {
                    return;
                }
                let cur = p.load(Ordering::Relaxed);
                if cur != last {
                    last = cur;
                    since = Instant::now();
                } else if since.elapsed().as_secs() >= stall_secs {
                    println!("INCONCLUSIVE property={id} no progress for {stall_secs}s (watchdog)");
                    std::process::exit(2);
                }
            }
        });
        Watchdog { progress, stop }
    }
    pub fn tick(&self) {
        self.progress.fetch_add(1, std::sync::atomic::Ordering::Relaxed);
    }
    pub fn stop(&self) {
        self.stop.store(true, std::sync::atomic::Ordering::Relaxed);
    }
}
