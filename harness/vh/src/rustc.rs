//! Compiling (and optionally linking + running) emitted Rust text against exactly the six
//! documented dependency crates, whose artifacts are built by the `gendeps` crate from the
//! repository's lock file.

use serde::Deserialize;
use std::path::{Path, PathBuf};
use std::process::{Command, Stdio};
use std::time::Duration;
use wait_timeout::ChildExt;

#[derive(Clone, Debug)]
pub struct Externs {
    pub deps_dir: PathBuf,
    pub items: Vec<(String, PathBuf)>, // (crate name as seen by rustc, artifact)
}

const WANT: [&str; 6] = ["yaserde", "yaserde_derive", "xml", "log", "reqwest", "tokio"];

impl Externs {
    pub fn discover() -> Result<Externs, String> {
        let out = Command::new("cargo")
            .args(["build", "--offline", "-q", "-p", "gendeps", "--message-format=json"])
            .current_dir("/verif/harness")
            .env("CARGO_NET_OFFLINE", "true")
            .stderr(Stdio::null())
            .output()
            .map_err(|e| format!("cargo: {e}"))?;
        if !out.status.success() {
            return Err("cargo build -p gendeps failed".into());
        }
        let mut items = vec![];
        for line in String::from_utf8_lossy(&out.stdout).lines() {
            let Ok(v) = serde_json::from_str::<serde_json::Value>(line) else { continue };
            if v["reason"] != "compiler-artifact" {
                continue;
            }
            let name = v["target"]["name"].as_str().unwrap_or("");
            if !WANT.contains(&name) {
                continue;
            }
            let files: Vec<&str> = v["filenames"].as_array().map(|a| a.iter().filter_map(|x| x.as_str()).collect()).unwrap_or_default();
            let pick = files.iter().find(|f| f.ends_with(".rlib") || f.ends_with(".so")).or(files.first());
            if let Some(p) = pick {
                items.retain(|(n, _): &(String, PathBuf)| n != name);
                items.push((name.to_string(), PathBuf::from(p)));
            }
        }
        if items.len() != WANT.len() {
            return Err(format!("expected {} dependency artifacts, found {}", WANT.len(), items.len()));
        }
        Ok(Externs { deps_dir: PathBuf::from("/verif/harness/target/debug/deps"), items })
    }

    fn args(&self) -> Vec<String> {
        let mut a = vec!["--edition".into(), "2024".into(), "-L".into(), format!("dependency={}", self.deps_dir.display())];
        for (n, p) in &self.items {
            a.push("--extern".into());
            a.push(format!("{n}={}", p.display()));
        }
        a
    }
}

#[derive(Clone, Debug, Deserialize)]
pub struct Span {
    pub file_name: String,
    pub line_start: usize,
    #[serde(default)]
    pub is_primary: bool,
}

#[derive(Clone, Debug)]
pub struct Diag {
    pub code: Option<String>,
    pub message: String,
    pub spans: Vec<Span>,
}

impl Diag {
    pub fn primary(&self) -> Option<&Span> {
        self.spans.iter().find(|s| s.is_primary).or(self.spans.first())
    }
    /// error code + message with identifiers, paths and numbers abstracted away
    pub fn normalised(&self) -> String {
        let mut out = String::new();
        let mut in_tick = false;
        for ch in self.message.chars() {
            if ch == '`' {
                in_tick = !in_tick;
                if in_tick {
                    out.push_str("`_`");
                }
                continue;
            }
            if !in_tick {
                out.push(if ch.is_ascii_digit() { '#' } else { ch });
            }
        }
        format!("{}:{}", self.code.clone().unwrap_or_else(|| "E----".into()), out.chars().take(90).collect::<String>())
    }
}

#[derive(Clone, Debug)]
pub struct Compile {
    pub ok: bool,
    pub errors: Vec<Diag>,
    pub timed_out: bool,
    pub raw_tail: String,
}

fn run_rustc(ex: &Externs, dir: &Path, main_rs: &str, extra: &[&str], timeout_s: u64) -> Compile {
    let mut cmd = Command::new("rustc");
    cmd.args(ex.args()).args(extra).arg("--error-format=json").arg("-Awarnings").arg(main_rs).current_dir(dir).stdin(Stdio::null()).stdout(Stdio::null()).stderr(Stdio::piped());
    let mut child = match cmd.spawn() {
        Ok(c) => c,
        Err(e) => return Compile { ok: false, errors: vec![], timed_out: true, raw_tail: format!("spawn rustc: {e}") },
    };
    // drain stderr on a thread so a chatty compiler cannot block on a full pipe
    let mut err = child.stderr.take().unwrap();
    let reader = std::thread::spawn(move || {
        let mut s = String::new();
        use std::io::Read;
        let _ = err.read_to_string(&mut s);
        s
    });
    let status = match child.wait_timeout(Duration::from_secs(timeout_s)).ok().flatten() {
        Some(s) => s,
        None => {
            let _ = child.kill();
            let _ = child.wait();
            return Compile { ok: false, errors: vec![], timed_out: true, raw_tail: "rustc timed out".into() };
        }
    };
    let text = reader.join().unwrap_or_default();
    let mut errors = vec![];
    for line in text.lines() {
        let Ok(v) = serde_json::from_str::<serde_json::Value>(line) else { continue };
        if v["level"] != "error" {
            continue;
        }
        let spans: Vec<Span> = v["spans"].as_array().map(|a| a.iter().filter_map(|s| serde_json::from_value(s.clone()).ok()).collect()).unwrap_or_default();
        let msg = v["message"].as_str().unwrap_or("").to_string();
        if msg.starts_with("aborting due to") {
            continue;
        }
        errors.push(Diag { code: v["code"]["code"].as_str().map(str::to_string), message: msg, spans });
    }
    let tail: String = text.lines().rev().take(3).collect::<Vec<_>>().join(" | ").chars().take(400).collect();
    Compile { ok: status.success(), errors, timed_out: false, raw_tail: tail }
}

/// Type-check only (`--emit=metadata`) a crate whose root is `main_rs` inside `dir`.
pub fn check_crate(ex: &Externs, dir: &Path, main_rs: &str) -> Compile {
    run_rustc(ex, dir, main_rs, &["--crate-type", "lib", "--emit=metadata", "-o", "out.rmeta"], 120)
}

/// Build an executable `dir/drv` from `main_rs`.
pub fn build_bin(ex: &Externs, dir: &Path, main_rs: &str) -> Compile {
    run_rustc(ex, dir, main_rs, &["--crate-type", "bin", "-C", "debuginfo=0", "-C", "opt-level=0", "-o", "drv"], 240)
}

pub struct RunOut {
    pub stdout: String,
    pub exit: Option<i32>,
    pub timed_out: bool,
}

pub fn run_bin(dir: &Path, timeout_s: u64, env: &[(&str, String)]) -> RunOut {
    let mut cmd = Command::new(dir.join("drv"));
    cmd.current_dir(dir).stdin(Stdio::null()).stdout(Stdio::piped()).stderr(Stdio::null());
    for (k, v) in env {
        cmd.env(k, v);
    }
    for k in ["http_proxy", "https_proxy", "HTTP_PROXY", "HTTPS_PROXY", "all_proxy", "ALL_PROXY"] {
        cmd.env_remove(k);
    }
    let Ok(mut child) = cmd.spawn() else { return RunOut { stdout: String::new(), exit: None, timed_out: false } };
    let mut out = child.stdout.take().unwrap();
    let reader = std::thread::spawn(move || {
        let mut s = String::new();
        use std::io::Read;
        let _ = out.read_to_string(&mut s);
        s
    });
    let status = child.wait_timeout(Duration::from_secs(timeout_s)).ok().flatten();
    let timed_out = status.is_none();
    if timed_out {
        let _ = child.kill();
        let _ = child.wait();
    }
    let stdout = reader.join().unwrap_or_default();
    RunOut { stdout, exit: status.and_then(|s| s.code()), timed_out }
}
