//! C02 — generated structs mirror the schema (members, occurrence, types, names); also the
//! shared typed-driver machinery used by C08 and C09.

use crate::c01::{compile_signature, profile_for, replay_open_findings};
use crate::common::*;
use crate::expect::{self, ExpField, ExpStruct, ExpTy, StructKind, Wrap};
use crate::model::{CompKind, Model, QRef};
use crate::outscan::{self, OStruct, Scan};
use crate::pipeline::{self, Case};
use crate::rustc::Externs;
use crate::sgen::{Profile, RawModel};
use crate::worker::Outcome;
use serde_json::json;
use std::collections::{BTreeMap, BTreeSet};
use std::path::Path;

#[derive(Clone, Debug)]
pub struct Failure {
    pub sig: String,
    pub detail: String,
    /// the struct (component) concerned, when known
    pub q: Option<QRef>,
}

/// Which module the output uses for the namespace of file `fi` (must be exactly one).
fn module_of(m: &Model, scan: &Scan, fi: usize) -> Result<String, Failure> {
    let uri = &m.files[fi].ns;
    let mods = scan.modules_of_uri(uri);
    match mods.len() {
        1 => Ok(mods[0].clone()),
        0 => Err(Failure { sig: "namespace-has-no-module".into(), detail: format!("no module declares {uri}"), q: None }),
        n => Err(Failure { sig: "namespace-has-several-modules".into(), detail: format!("{n} modules declare {uri}: {mods:?}"), q: None }),
    }
}

pub fn wrap_ty(w: Wrap, inner: &str) -> String {
    match w {
        Wrap::Bare => inner.to_string(),
        Wrap::Opt => format!("Option<{inner}>"),
        Wrap::Vec => format!("Vec<{inner}>"),
    }
}

/// absolute Rust path of a struct-typed member as seen from the driver
pub fn struct_path(m: &Model, scan: &Scan, q: QRef) -> Result<String, Failure> {
    let module = module_of(m, scan, q.file)?;
    Ok(format!("g::{}::{}", module, m.comp(q).name.pascal()))
}

fn inner_ty(m: &Model, scan: &Scan, t: &ExpTy) -> Result<String, Failure> {
    match t {
        ExpTy::Prim { rust, .. } => Ok(rust.clone()),
        ExpTy::Struct(q) => struct_path(m, scan, *q),
    }
}

fn last_seg(t: &str) -> String {
    // Option<mod_a::Line> -> Option<Line>
    let mut out = String::new();
    let mut cur = String::new();
    for ch in t.chars() {
        if ch.is_alphanumeric() || ch == '_' || ch == ':' || ch == '#' {
            cur.push(ch);
        } else {
            out.push_str(cur.rsplit("::").next().unwrap_or(""));
            cur.clear();
            out.push(ch);
        }
    }
    out.push_str(cur.rsplit("::").next().unwrap_or(""));
    out
}

fn wrap_name(w: Wrap) -> &'static str {
    match w {
        Wrap::Bare => "T",
        Wrap::Opt => "Option<T>",
        Wrap::Vec => "Vec<T>",
    }
}

fn found_wrap(t: &str) -> &'static str {
    if t.starts_with("Option<") {
        "Option<T>"
    } else if t.starts_with("Vec<") {
        "Vec<T>"
    } else {
        "T"
    }
}

fn member_kind(f: &ExpField) -> String {
    let mut k = if f.attr { "attribute".to_string() } else { "element".to_string() };
    if f.inherited {
        k += ".inherited";
    }
    if f.in_choice {
        k += ".choice-branch";
    }
    if f.depth >= 2 {
        k += ".nested";
    }
    k
}

/// Static comparison of one expected struct with what syn found. Returns discrepancies and the
/// actual field identifiers to use in the driver (parallel to `es.fields`; None = not found).
fn compare_struct(es: &ExpStruct, os: &OStruct, check_names: bool) -> (Vec<Failure>, Vec<Option<String>>) {
    let mut fails = vec![];
    let q = Some(es.q);
    if !os.public {
        fails.push(Failure { sig: "struct-not-public".into(), detail: os.ident.clone(), q });
    }
    let mut idents: Vec<Option<String>> = vec![];
    match &es.kind {
        StructKind::Simple { base } => {
            // { value: String } or { value: Base }
            let ok = os.fields.len() == 1 && os.fields[0].ident == "value";
            if !ok {
                fails.push(Failure { sig: "simple-type-struct-shape".into(), detail: format!("{:?}", os.fields.iter().map(|f| (&f.ident, &f.ty)).collect::<Vec<_>>()), q });
            } else {
                let want = match base {
                    ExpTy::Prim { .. } => "String".to_string(),
                    ExpTy::Struct(_) => "<base struct>".to_string(),
                };
                if want == "String" && os.fields[0].ty != "String" {
                    fails.push(Failure { sig: "simple-type-value-not-string".into(), detail: os.fields[0].ty.clone(), q });
                }
                if !os.fields[0].public {
                    fails.push(Failure { sig: "field-not-public".into(), detail: "value".into(), q });
                }
            }
            return (fails, idents);
        }
        StructKind::Complex => {}
    }
    // match expected members to actual fields by XML name (+ attribute flag)
    let mut used = vec![false; os.fields.len()];
    for ef in &es.fields {
        let pos = os.fields.iter().enumerate().position(|(i, of)| !used[i] && of.ya.rename.as_deref() == Some(ef.xml.as_str()) && of.ya.attribute == ef.attr).or_else(|| {
            os.fields.iter().enumerate().position(|(i, of)| !used[i] && of.ya.rename.as_deref() == Some(ef.xml.as_str()))
        });
        match pos {
            None => {
                idents.push(None);
                fails.push(Failure { sig: format!("member-missing:{}", member_kind(ef)), detail: format!("{} ({}) of {}", ef.xml, ef.rust, es.rust), q });
            }
            Some(i) => {
                used[i] = true;
                let of = &os.fields[i];
                idents.push(Some(of.ident.clone()));
                if !of.public {
                    fails.push(Failure { sig: "field-not-public".into(), detail: of.ident.clone(), q });
                }
                if of.ya.attribute != ef.attr {
                    fails.push(Failure { sig: format!("member-kind-differs:{}", member_kind(ef)), detail: format!("{} attribute={} expected {}", ef.xml, of.ya.attribute, ef.attr), q });
                }
                if check_names && ef.canonical && of.ident != ef.rust {
                    fails.push(Failure { sig: "field-name-not-snake-case-of-xml-name".into(), detail: format!("{} -> {} expected {}", ef.xml, of.ident, ef.rust), q });
                }
                let fw = found_wrap(&of.ty);
                if fw != wrap_name(ef.wrap) {
                    fails.push(Failure {
                        sig: format!("wrapper:{}:expected-{}:found-{}", member_kind(ef), wrap_name(ef.wrap), fw),
                        detail: format!("{}.{}: {} (expected wrapper {})", es.rust, of.ident, of.ty, wrap_name(ef.wrap)),
                        q,
                    });
                } else {
                    // inner type, module qualifiers dropped (rustc judges the module)
                    let inner_found = last_seg(&of.ty);
                    let inner_want = match &ef.ty {
                        ExpTy::Prim { rust, .. } => wrap_ty(ef.wrap, rust),
                        ExpTy::Struct(_) => String::new(),
                    };
                    if !inner_want.is_empty() && inner_found != inner_want {
                        let b = if let ExpTy::Prim { builtin, .. } = &ef.ty { builtin.clone() } else { String::new() };
                        fails.push(Failure { sig: format!("builtin-mapping:{b}:expected-{}:found-{}", inner_want, inner_found), detail: format!("{}.{}", es.rust, of.ident), q });
                    }
                }
            }
        }
    }
    for (i, of) in os.fields.iter().enumerate() {
        if !used[i] {
            fails.push(Failure { sig: "undeclared-member-added".into(), detail: format!("{}.{}: {}", es.rust, of.ident, of.ty), q });
        }
    }
    // order
    if fails.is_empty() {
        let actual: Vec<&str> = os.fields.iter().map(|f| f.ya.rename.as_deref().unwrap_or("")).collect();
        let want: Vec<&str> = es.fields.iter().map(|f| f.xml.as_str()).collect();
        if actual != want {
            let inh = es.fields.iter().any(|f| f.inherited);
            fails.push(Failure { sig: format!("member-order{}", if inh { ":derived-type" } else { "" }), detail: format!("{}: {actual:?} expected {want:?}", es.rust), q });
        }
    }
    (fails, idents)
}

pub struct Static {
    pub fails: Vec<Failure>,
    /// driver source for the crate root and, per driver fn, the struct it checks (line ranges)
    pub driver: String,
    pub fn_lines: Vec<(usize, usize, QRef)>,
}

/// Static (syn) part + synthesis of the typed driver.
pub fn static_check(m: &Model, scan: &Scan, only: Option<&dyn Fn(&ExpStruct) -> bool>) -> Static {
    let exp = expect::structs(m);
    let mut fails = vec![];
    let mut driver = String::from("#[allow(unused, non_snake_case, clippy::all)]\nmod drv {\nuse super::g;\n");
    let mut fn_lines = vec![];
    let mut line = 2 /* lib.rs has two lines before the extra root text */ + 3;
    // expected (module, ident) multiset
    let mut expected_in_module: BTreeMap<String, BTreeSet<String>> = BTreeMap::new();
    for (k, es) in exp.iter().enumerate() {
        let module = match module_of(m, scan, es.q.file) {
            Ok(x) => x,
            Err(f) => {
                if !fails.iter().any(|x: &Failure| x.sig == f.sig) {
                    fails.push(f);
                }
                continue;
            }
        };
        expected_in_module.entry(module.clone()).or_default().insert(es.rust.clone());
        if let Some(filter) = only {
            if !filter(es) {
                continue;
            }
        }
        let found = scan.find_struct(&module, &es.rust);
        let kind = match m.comp(es.q).kind {
            CompKind::Simple(_) => "simple-type",
            CompKind::Complex(_) => "complex-type",
            CompKind::ElementAnon(_) => "anonymous-typed-element",
            CompKind::ElementTyped(_) => "typed-element",
        };
        if found.is_empty() {
            // is it somewhere else?
            let elsewhere = scan.structs.iter().filter(|s| s.ident == es.rust).count();
            fails.push(Failure {
                sig: format!("struct-missing:{kind}{}", if elsewhere > 0 { ":found-in-another-module" } else { "" }),
                detail: format!("{} expected in {module}", es.rust),
                q: Some(es.q),
            });
            continue;
        }
        if found.len() > 1 {
            fails.push(Failure { sig: format!("struct-duplicated:{kind}"), detail: format!("{} x{} in {module}", es.rust, found.len()), q: Some(es.q) });
            continue;
        }
        let (f, idents) = compare_struct(es, found[0], true);
        let static_ok = f.is_empty();
        fails.extend(f);
        // typed driver: complete literal with exact types
        let mut body = String::new();
        let mut ok = static_ok || idents.iter().all(|i| i.is_some());
        let mut lits = vec![];
        match &es.kind {
            StructKind::Simple { base } => {
                let t = match base {
                    ExpTy::Prim { .. } => Ok("String".to_string()),
                    ExpTy::Struct(q) => struct_path(m, scan, *q),
                };
                match t {
                    Ok(t) => {
                        body += &format!("    let f0: {t} = Default::default();\n");
                        lits.push("value: f0".to_string());
                    }
                    Err(_) => ok = false,
                }
            }
            StructKind::Complex => {
                for (i, ef) in es.fields.iter().enumerate() {
                    let Some(Some(id)) = idents.get(i) else {
                        ok = false;
                        break;
                    };
                    match inner_ty(m, scan, &ef.ty) {
                        Ok(t) => {
                            body += &format!("    let f{i}: {} = Default::default();\n", wrap_ty(ef.wrap, &t));
                            lits.push(format!("{id}: f{i}"));
                        }
                        Err(_) => ok = false,
                    }
                }
            }
        }
        if ok {
            let start = line;
            let text = format!("fn s{k}() {{\n{body}    let _v = g::{module}::{} {{ {} }};\n}}\n", es.rust, lits.join(", "));
            line += text.lines().count();
            driver += &text;
            fn_lines.push((start, line, es.q));
        }
    }
    // nothing else struct-like in namespace modules
    if only.is_none() {
        for s in &scan.structs {
            if s.module.is_empty() {
                continue;
            }
            let mp = s.module.join("::");
            if ["error", "helpers", "restrictions", "multi_ref"].contains(&mp.as_str()) {
                continue;
            }
            if !expected_in_module.get(&mp).is_some_and(|set| set.contains(&s.ident)) {
                fails.push(Failure { sig: "undeclared-struct-added".into(), detail: format!("{mp}::{}", s.ident), q: None });
            }
        }
    }
    driver += "}\n";
    Static { fails, driver, fn_lines }
}

/// Full judgement of one case: zeep -> syn -> rustc with the typed driver.
pub type Extra<'a> = Option<&'a (dyn Fn(&Model, &Scan) -> Vec<Failure> + Sync)>;

pub fn judge_case(ex: &Externs, dir: &Path, case: &Case, out: &Outcome, only: Option<&dyn Fn(&ExpStruct) -> bool>, extra: Extra) -> Vec<Failure> {
    let text = match out {
        Outcome::Ok { output, .. } => output,
        Outcome::ReadErr { msg, .. } | Outcome::WriteErr { msg, .. } => {
            let class: String = msg.split(':').take(2).collect::<Vec<_>>().join(":").chars().take(60).collect();
            return vec![Failure { sig: format!("rejected:{class}"), detail: msg.clone(), q: None }];
        }
        o => return vec![Failure { sig: format!("generator-crashed:{}", o.class()), detail: String::new(), q: None }],
    };
    let scan = match outscan::scan(text) {
        Ok(s) => s,
        Err(e) => return vec![Failure { sig: "uncompilable-output:does-not-parse".into(), detail: e, q: None }],
    };
    let st = static_check(&case.model, &scan, only);
    let mut fails = st.fails;
    if let Some(x) = extra {
        fails.extend(x(&case.model, &scan));
    }
    let c = pipeline::compile_output(ex, dir, text, &st.driver);
    if !c.ok {
        if c.timed_out {
            fails.push(Failure { sig: "rustc-timeout".into(), detail: String::new(), q: None });
            return fails;
        }
        let mut out_rs_error = None;
        for d in &c.errors {
            let Some(sp) = d.primary() else { continue };
            if sp.file_name.ends_with("lib.rs") {
                if let Some((_, _, q)) = st.fn_lines.iter().find(|(a, b, _)| sp.line_start >= *a && sp.line_start < *b) {
                    // only report what the static comparison has not explained already
                    if !fails.iter().any(|f| f.q == Some(*q)) {
                        let es_name = case.model.comp(*q).name.pascal();
                        fails.push(Failure { sig: format!("typed-driver:{}", d.normalised()), detail: format!("struct {es_name}: {}", d.message), q: Some(*q) });
                    }
                }
            } else if out_rs_error.is_none() {
                out_rs_error = Some(d.clone());
            }
        }
        if let Some(_d) = out_rs_error {
            if fails.is_empty() {
                fails.push(Failure { sig: format!("uncompilable-output:{}", compile_signature(&c).trim_start_matches("uncompilable:")), detail: c.raw_tail.clone(), q: None });
            }
        }
        if fails.is_empty() {
            fails.push(Failure { sig: format!("typed-driver:unattributed:{}", compile_signature(&c)), detail: c.raw_tail, q: None });
        }
    }
    fails
}

pub fn judge_raw(ex: &Externs, scratch: &Path, raw: &RawModel, profile: &Profile, only: Option<&dyn Fn(&ExpStruct) -> bool>, extra: Extra) -> Vec<Failure> {
    let case = pipeline::make_case(raw.clone(), profile);
    let out = crate::worker::run_single(&case.files);
    let dir = pipeline::case_dir(scratch, 888_888);
    let f = judge_case(ex, &dir, &case, &out, only, extra);
    let _ = std::fs::remove_dir_all(&dir);
    f
}

pub struct RunCfg<'a> {
    pub id: &'a str,
    pub rule: &'a str,
    pub salt: &'a str,
    pub n_quick: usize,
    pub n_thorough: usize,
    pub tune: &'a (dyn Fn(&mut Profile) + Sync),
    pub only: Option<&'a (dyn Fn(&ExpStruct) -> bool + Sync)>,
    /// additional static checks on the scanned output
    pub extra: Option<&'a (dyn Fn(&Model, &Scan) -> Vec<Failure> + Sync)>,
    pub nontrivial: &'a (dyn Fn(&Case) -> bool + Sync),
}

/// The common driver loop for C02 / C08.
pub fn run_with(tier: Tier, cfg: &RunCfg) -> i32 {
    use rayon::prelude::*;
    let findings = Findings::load();
    findings.print_fixed(cfg.id);
    let mut ev = Evidence::new(cfg.id, tier, "exploration", cfg.rule);
    ev.assume("the reference mapping (expect.rs) restates DESIGN.md section 3.2; module names are read from the output, not asserted");
    let ex = match Externs::discover() {
        Ok(e) => e,
        Err(e) => {
            ev.inconclusive = Some(e);
            ev.evaluations = 1;
            return ev.finish();
        }
    };
    let (mut profile, gates) = profile_for(&findings, cfg.id);
    (cfg.tune)(&mut profile);
    ev.extra.insert("gates_masked".into(), json!(gates));
    let scratch = scratch_dir(&cfg.id.to_lowercase());
    let n = tier.pick(cfg.n_quick, cfg.n_thorough);
    let (cases, mut trees) = pipeline::generate(n, cfg.salt, &profile);
    let outs = pipeline::emit_all(&cases);
    let only_dyn: Option<&dyn Fn(&ExpStruct) -> bool> = cfg.only.map(|f| f as &dyn Fn(&ExpStruct) -> bool);
    let results: Vec<Vec<Failure>> = cases
        .par_iter()
        .enumerate()
        .map(|(i, case)| {
            let dir = pipeline::case_dir(&scratch, i);
            let only: Option<&dyn Fn(&ExpStruct) -> bool> = cfg.only.map(|f| f as &dyn Fn(&ExpStruct) -> bool);
            let f = judge_case(&ex, &dir, case, &outs[i], only, cfg.extra);
            let _ = std::fs::remove_dir_all(&dir);
            f
        })
        .collect();
    let mut reported = BTreeSet::new();
    let mut structs_checked = 0u64;
    let mut judged = 0usize;
    for (i, case) in cases.iter().enumerate() {
        ev.case(&format!("{:?}", case.files), (cfg.nontrivial)(case));
        pipeline::count_features(&mut ev, &case.stats);
        structs_checked += expect::structs(&case.model).len() as u64;
        if i < 2 {
            ev.sample(json!({"files": case.files.files.iter().map(|f| (f.0.clone(), f.1.chars().take(500).collect::<String>())).collect::<Vec<_>>(), "expected_structs": expect::structs(&case.model).iter().take(3).map(|s| json!({"name": s.rust, "fields": s.fields.iter().map(|f| format!("{}: {}", f.rust, wrap_ty(f.wrap, &format!("{:?}", f.ty)))).collect::<Vec<_>>()})).collect::<Vec<_>>()}));
        }
        if !results[i].iter().any(|f| f.sig.starts_with("rustc-timeout")) {
            judged += 1;
        }
        for f in &results[i] {
            let sig = format!("{} {}", cfg.id, f.sig);
            if !reported.insert(sig.clone()) {
                ev.class("further-failing-structs");
                continue;
            }
            let want = f.sig.clone();
            let small = shrink(&mut trees[i], |r| judge_raw(&ex, &scratch, r, &profile, only_dyn, cfg.extra).iter().any(|x| x.sig == want), tier.pick(24, 80));
            let small_case = pipeline::make_case(small.clone(), &profile);
            let detail = judge_raw(&ex, &scratch, &small, &profile, only_dyn, cfg.extra).into_iter().find(|x| x.sig == f.sig).map(|x| x.detail).unwrap_or(f.detail.clone());
            route_failure(&mut ev, &findings, "struct-mismatch", &sig, json!({"raw": small, "profile": profile, "files": small_case.files, "detail": detail}));
        }
    }
    ev.extra.insert("structs_checked".into(), json!(structs_checked));
    if judged * 2 < cases.len() {
        ev.inconclusive = Some(format!("only {judged} of {} cases could be judged", cases.len()));
    }
    let id = cfg.id.to_string();
    replay_open_findings(&mut ev, &findings, cfg.id, &|raw, prof| judge_raw(&ex, &scratch, raw, prof, only_dyn, cfg.extra).first().map(|f| format!("{} {}", id, f.sig)));
    let _ = std::fs::remove_dir_all(&scratch);
    ev.finish()
}

pub fn run(tier: Tier) -> i32 {
    run_with(
        tier,
        &RunCfg {
            id: "C02",
            rule: "schema sets from the supported-subset grammar, member profile (no WSDL): every XSD builtin and named simple/complex types of the same or another namespace as member types x every minOccurs/maxOccurs combination on the element and on the enclosing sequence x attribute use x nesting (sequence in sequence, choice, particles after a nested group) x declaration before/after use x 1-4 files. Oracle: (1) syn: exactly one pub struct per named complex type, simple type and anonymous-typed global element, in the single module of its namespace, PascalCase name, pub snake_case fields, nothing undeclared; member-by-member comparison (presence, attribute flag, T / Option<T> / Vec<T>, builtin mapping, order) against an independent reference mapping; (2) rustc: a synthesized driver builds every struct with a complete literal whose fields are bound through exactly typed lets. Non-trivial: a schema set with a struct of >= 3 members mixing >= 2 wrappings, or a cross-namespace member type; distinct by rendered file set.",
            salt: "C02",
            n_quick: 250,
            n_thorough: 4000,
            tune: &|p: &mut Profile| {
                p.wsdl = 0;
                p.xml_lang = 1;
                p.seq_in_choice = true;
            },
            only: None,
            extra: None,
            nontrivial: &|case: &Case| {
                case.stats.features.contains("type.cross-namespace")
                    || expect::structs(&case.model).iter().any(|s| {
                        s.fields.len() >= 3 && {
                            let w: BTreeSet<u8> = s.fields.iter().map(|f| f.wrap as u8).collect();
                            w.len() >= 2
                        }
                    })
            },
        },
    )
}

pub fn replay_generic(id: &str, case: &serde_json::Value, only: Option<&dyn Fn(&ExpStruct) -> bool>, extra: Extra) -> i32 {
    if case["fileset"].is_object() && case["expect_structs"].is_array() {
        // replay of a hand-written repro of a known finding
        let fs: crate::zeep::FileSet = serde_json::from_value(case["fileset"].clone()).expect("fileset");
        let want: Vec<String> = case["expect_structs"].as_array().unwrap().iter().filter_map(|x| x.as_str().map(str::to_string)).collect();
        let missing: Vec<String> = match crate::worker::run_single(&fs) {
            Outcome::Ok { output, .. } => {
                let have = crate::c11::struct_names(&output);
                want.into_iter().filter(|w| !have.contains(w)).collect()
            }
            _ => want,
        };
        println!("missing structs: {missing:?}");
        if missing.is_empty() {
            return 0;
        }
        println!("VIOLATION property={id} replay=(this file)");
        return 1;
    }
    let ex = Externs::discover().expect("externs");
    let scratch = scratch_dir("c02r");
    let raw: RawModel = serde_json::from_value(case["raw"].clone()).expect("raw model");
    let profile: Profile = serde_json::from_value(case["profile"].clone()).expect("profile");
    let fails = judge_raw(&ex, &scratch, &raw, &profile, only, extra);
    let _ = std::fs::remove_dir_all(&scratch);
    for f in &fails {
        println!("{}: {}", f.sig, f.detail);
    }
    if fails.is_empty() {
        0
    } else {
        println!("VIOLATION property={id} replay=(this file)");
        1
    }
}

pub fn replay(case: &serde_json::Value) -> i32 {
    replay_generic("C02", case, None, None)
}

/// Members keep the namespace of the schema that declared them (C08), and references denote the
/// component of the right namespace (C09): every element member's yaserde prefix must be bound,
/// somewhere in the file, to the namespace of the declaring schema.
pub fn member_namespaces(m: &Model, scan: &Scan) -> Vec<Failure> {
    let mut prefix_uri: BTreeMap<String, BTreeSet<String>> = BTreeMap::new();
    for s in &scan.structs {
        for (p, u) in &s.ya.namespaces {
            prefix_uri.entry(p.clone()).or_default().insert(u.clone());
        }
    }
    let mut fails = vec![];
    for es in expect::structs(m) {
        let Ok(module) = module_of(m, scan, es.q.file) else { continue };
        let found = scan.find_struct(&module, &es.rust);
        if found.len() != 1 {
            continue;
        }
        for ef in es.fields.iter().filter(|f| !f.attr) {
            let Some(of) = found[0].fields.iter().find(|of| of.ya.rename.as_deref() == Some(ef.xml.as_str()) && !of.ya.attribute) else { continue };
            let want = &m.files[ef.ns_file].ns;
            // the struct itself has to declare the prefix (a struct may be the root of a document),
            // and nowhere in the file may the prefix mean something else
            let ok = match &of.ya.prefix {
                Some(p) => prefix_uri.get(p).is_some_and(|u| u.len() == 1 && u.contains(want)) && found[0].ya.namespaces.iter().any(|(k, u)| k == p && u == want),
                None => false,
            };
            if !ok {
                let what = if ef.inherited { "inherited-member" } else if matches!(ef.ty, ExpTy::Struct(q) if q.file != es.q.file) && ef.ns_file != es.q.file { "referenced-element" } else { "member" };
                fails.push(Failure {
                    sig: format!("member-namespace:{what}"),
                    detail: format!("{}.{}: prefix {:?} is bound to {:?}, declaring namespace is {want}", es.rust, ef.xml, of.ya.prefix, of.ya.prefix.as_ref().and_then(|p| prefix_uri.get(p))),
                    q: Some(es.q),
                });
            }
        }
    }
    fails
}
