//! C12 — generation is a deterministic function of the input files.
//!
//! Byte comparison of outputs across: repeated in-process generations (every HashMap gets
//! fresh RandomState keys), threads, K fresh processes, permuted registration orders,
//! repeated calls on the same FilesToRead object, and CLI runs over directories populated
//! in different creation orders.

use crate::common::*;
use crate::zeep::{self, FileSet, GenOutcome};
use proptest::prelude::*;
use proptest::strategy::ValueTree;
use serde_json::json;
use std::io::Write as _;
use std::process::{Command, Stdio};

/// A small order-sensitive WSDL: operations, multi-part messages, body with/without `parts`.
#[derive(Clone, Debug, serde::Serialize, serde::Deserialize)]
pub struct WsdlSpec {
    pub ops: Vec<OpSpec>,
    pub extra_types: usize,
    pub split_types: bool,
}
#[derive(Clone, Debug, serde::Serialize, serde::Deserialize)]
pub struct OpSpec {
    pub name: String,
    pub in_parts: usize,  // 1..=4
    pub out_parts: usize, // 0 = one-way is not generated here (kept >= 1)
    pub body_names_part: bool,
    pub headers: usize,
}

const WORDS: [&str; 12] = ["Get", "Set", "List", "Find", "Make", "Drop", "Send", "Pull", "Push", "Scan", "Open", "Shut"];
const NOUNS: [&str; 10] = ["User", "Order", "Item", "Quote", "Report", "Ticket", "Batch", "Token", "Queue", "Photo"];

fn arb_wsdl() -> impl Strategy<Value = WsdlSpec> {
    let op = (0usize..12, 0usize..10, 1usize..=4, 1usize..=3, any::<bool>(), 0usize..=2)
        .prop_map(|(w, n, ip, op, b, h)| OpSpec { name: format!("{}{}", WORDS[w], NOUNS[n]), in_parts: ip, out_parts: op, body_names_part: b, headers: h });
    (proptest::collection::vec(op, 2..10), 0usize..4, any::<bool>()).prop_map(|(mut ops, extra_types, split_types)| {
        // unique operation names
        let mut seen = std::collections::BTreeSet::new();
        ops.retain(|o| seen.insert(o.name.clone()));
        for o in &mut ops {
            o.headers = o.headers.min(o.in_parts - 1);
            if o.headers > 0 {
                o.body_names_part = true;
            }
        }
        WsdlSpec { ops, extra_types, split_types }
    })
}

pub fn arb_wsdl_pub() -> impl Strategy<Value = WsdlSpec> {
    arb_wsdl()
}

pub fn render(spec: &WsdlSpec) -> FileSet {
    let tns = "http://example.org/det/svc";
    let tys = "http://example.org/det/types";
    let mut elems = String::new();
    let mut msgs = String::new();
    let mut port = String::new();
    let mut bind = String::new();
    for o in &spec.ops {
        for (dir, n) in [("In", o.in_parts), ("Out", o.out_parts)] {
            msgs += &format!("  <wsdl:message name=\"{}{}\">\n", o.name, dir);
            for p in 0..n {
                let el = format!("{}{}P{}", o.name, dir, p);
                elems += &format!("      <xs:element name=\"{el}\"><xs:complexType><xs:sequence><xs:element name=\"v{p}\" type=\"xs:string\"/><xs:element name=\"x\" type=\"t:Extra0\" minOccurs=\"0\"/></xs:sequence></xs:complexType></xs:element>\n");
                msgs += &format!("    <wsdl:part name=\"part{p}\" element=\"tns:{el}\"/>\n");
            }
            msgs += "  </wsdl:message>\n";
        }
        port += &format!("    <wsdl:operation name=\"{0}\"><wsdl:input message=\"tns:{0}In\"/><wsdl:output message=\"tns:{0}Out\"/></wsdl:operation>\n", o.name);
        let body_in = if o.body_names_part { "<soap:body use=\"literal\" parts=\"part0\"/>".to_string() } else { "<soap:body use=\"literal\"/>".to_string() };
        let mut hdr = String::new();
        for h in 0..o.headers {
            hdr += &format!("<soap:header message=\"tns:{}In\" part=\"part{}\" use=\"literal\"/>", o.name, h + 1);
        }
        bind += &format!(
            "    <wsdl:operation name=\"{0}\"><soap:operation soapAction=\"http://example.org/det/{0}\"/><wsdl:input>{hdr}{body_in}</wsdl:input><wsdl:output><soap:body use=\"literal\"/></wsdl:output></wsdl:operation>\n",
            o.name
        );
    }
    let mut types = String::new();
    for i in 0..spec.extra_types.max(1) {
        types += &format!("  <xs:complexType name=\"Extra{i}\"><xs:sequence><xs:element name=\"a\" type=\"xs:int\"/><xs:element name=\"b\" type=\"xs:string\" minOccurs=\"0\"/></xs:sequence></xs:complexType>\n");
    }
    let (import, inline_types, mut files) = if spec.split_types {
        let xsd = format!("<?xml version=\"1.0\"?>\n<xs:schema xmlns:xs=\"http://www.w3.org/2001/XMLSchema\" xmlns:t=\"{tys}\" targetNamespace=\"{tys}\" elementFormDefault=\"qualified\">\n{types}</xs:schema>\n");
        (format!("      <xs:import namespace=\"{tys}\" schemaLocation=\"types.xsd\"/>\n"), String::new(), vec![("types.xsd".to_string(), xsd)])
    } else {
        (String::new(), String::new(), vec![])
    };
    let _ = inline_types;
    let types_ns = if spec.split_types { tys } else { tns };
    let inline = if spec.split_types { String::new() } else { types.replace("  <xs:complexType", "      <xs:complexType") };
    let wsdl = format!(
        "<?xml version=\"1.0\"?>\n<wsdl:definitions xmlns:wsdl=\"http://schemas.xmlsoap.org/wsdl/\" xmlns:soap=\"http://schemas.xmlsoap.org/wsdl/soap/\" xmlns:xs=\"http://www.w3.org/2001/XMLSchema\" xmlns:tns=\"{tns}\" xmlns:t=\"{types_ns}\" targetNamespace=\"{tns}\">\n  <wsdl:types>\n    <xs:schema targetNamespace=\"{tns}\" elementFormDefault=\"qualified\">\n{import}{inline}{elems}    </xs:schema>\n  </wsdl:types>\n{msgs}  <wsdl:portType name=\"DetPort\">\n{port}  </wsdl:portType>\n  <wsdl:binding name=\"DetBinding\" type=\"tns:DetPort\">\n    <soap:binding style=\"document\" transport=\"http://schemas.xmlsoap.org/soap/http\"/>\n{bind}  </wsdl:binding>\n  <wsdl:service name=\"DetService\"><wsdl:port name=\"DetPort\" binding=\"tns:DetBinding\"><soap:address location=\"http://localhost:8080/det\"/></wsdl:port></wsdl:service>\n</wsdl:definitions>\n"
    );
    files.insert(0, ("service.wsdl".to_string(), wsdl));
    FileSet { start: "service.wsdl".to_string(), files }
}

/// A start schema importing 2-4 siblings whose registered names are distinct strings but look
/// alike (shared last path segment, case, "./" prefix): any normalisation of names inside the
/// library makes them collide, and then the registration order decides which one wins.
const SIMILAR_NAMES: [&str; 10] = ["types.xsd", "v1/types.xsd", "v2/types.xsd", "./types.xsd", "common/v1/types.xsd", "Types.xsd", "types.XSD", "types.xsd.xsd", "a/b.xsd", "b.xsd"];

pub fn render_similar_names(picks: &[usize]) -> FileSet {
    let mut names: Vec<&str> = vec![];
    for p in picks {
        let n = SIMILAR_NAMES[*p % SIMILAR_NAMES.len()];
        if !names.contains(&n) {
            names.push(n);
        }
    }
    let mut files = vec![];
    let mut imports = String::new();
    for (i, n) in names.iter().enumerate() {
        let ns = format!("http://example.org/names/{}", ["alpha", "bravo", "charlie", "delta"][i % 4]);
        imports += &format!("  <xs:import namespace=\"{ns}\" schemaLocation=\"{n}\"/>\n");
        files.push((
            n.to_string(),
            format!("<?xml version=\"1.0\"?>\n<xs:schema xmlns:xs=\"http://www.w3.org/2001/XMLSchema\" targetNamespace=\"{ns}\" elementFormDefault=\"qualified\">\n  <xs:complexType name=\"Item{i}Type\"><xs:sequence><xs:element name=\"v{i}\" type=\"xs:string\"/></xs:sequence></xs:complexType>\n</xs:schema>\n"),
        ));
    }
    let main = format!("<?xml version=\"1.0\"?>\n<xs:schema xmlns:xs=\"http://www.w3.org/2001/XMLSchema\" targetNamespace=\"http://example.org/names/main\" elementFormDefault=\"qualified\">\n{imports}  <xs:complexType name=\"Main\"><xs:sequence><xs:element name=\"m\" type=\"xs:int\"/></xs:sequence></xs:complexType>\n</xs:schema>\n");
    files.insert(0, ("main.xsd".to_string(), main));
    FileSet { start: "main.xsd".to_string(), files }
}

/// `vh gen-worker <fileset.json>`: one generation in a fresh process, outcome as JSON on stdout.
pub fn gen_worker(path: &str) -> i32 {
    zeep::install_panic_hook();
    let fs: FileSet = serde_json::from_str(&std::fs::read_to_string(path).expect("fileset file")).expect("fileset json");
    let out = zeep::generate(&fs);
    let mut so = std::io::stdout().lock();
    so.write_all(serde_json::to_string(&out).unwrap().as_bytes()).unwrap();
    0
}

pub fn fresh_process(fs_path: &std::path::Path) -> Option<GenOutcome> {
    let exe = std::env::current_exe().ok()?;
    let out = Command::new(exe).arg("gen-worker").arg(fs_path).stdin(Stdio::null()).stderr(Stdio::null()).output().ok()?;
    serde_json::from_slice(&out.stdout).ok()
}

fn first_diff(a: &str, b: &str) -> String {
    let la: Vec<&str> = a.lines().collect();
    let lb: Vec<&str> = b.lines().collect();
    for i in 0..la.len().max(lb.len()) {
        if la.get(i) != lb.get(i) {
            return format!("line {}: {:?} vs {:?}", i + 1, la.get(i).unwrap_or(&"<eof>"), lb.get(i).unwrap_or(&"<eof>"));
        }
    }
    "equal".into()
}

/// What kind of thing differs (for the signature): look at the first differing line.
fn diff_class(a: &GenOutcome, b: &GenOutcome) -> String {
    match (a, b) {
        (GenOutcome::Ok(x), GenOutcome::Ok(y)) => {
            if y.len() < x.len() / 2 {
                return "output-truncated-or-empty".into();
            }
            let d = first_diff(x, y);
            if d.contains("/*") {
                "operation-order".into()
            } else if d.contains("pub async fn") {
                "method-order".into()
            } else if d.contains("pub struct") || d.contains("yaserde") || d.contains("pub ") {
                "item-order-or-content".into()
            } else {
                "content".into()
            }
        }
        _ => "outcome-class".into(),
    }
}

struct Diff {
    axis: &'static str,
    class: String,
    detail: String,
}

fn permutations(n: usize, limit: usize, rot: usize) -> Vec<Vec<usize>> {
    let mut out = vec![];
    let mut idx: Vec<usize> = (0..n).collect();
    fn rec(k: usize, idx: &mut Vec<usize>, out: &mut Vec<Vec<usize>>, limit: usize) {
        if out.len() >= limit {
            return;
        }
        if k == idx.len() {
            out.push(idx.clone());
            return;
        }
        for i in k..idx.len() {
            idx.swap(k, i);
            rec(k + 1, idx, out, limit);
            idx.swap(k, i);
        }
    }
    if n <= 4 {
        rec(0, &mut idx, &mut out, limit);
    } else {
        for r in 0..limit {
            let mut v: Vec<usize> = (0..n).collect();
            v.rotate_left((r * 7 + rot) % n);
            if r % 2 == 1 {
                v.reverse();
            }
            out.push(v);
        }
    }
    out
}

struct Plan {
    repeats: usize,
    threads: usize,
    procs: usize,
}

fn examine(label: &str, fs: &FileSet, plan: &Plan, scratch: &std::path::Path, ev: &mut Evidence) -> Vec<Diff> {
    let mut diffs = vec![];
    let base = zeep::generate(fs);
    let GenOutcome::Ok(base_text) = &base else {
        ev.class("input.not-accepted");
        return diffs;
    };
    let mut note = |axis: &'static str, other: &GenOutcome, diffs: &mut Vec<Diff>| {
        if other != &base {
            let detail = match other {
                GenOutcome::Ok(t) => first_diff(base_text, t),
                o => format!("{o:?}").chars().take(200).collect(),
            };
            diffs.push(Diff { axis, class: diff_class(&base, other), detail });
        }
    };
    // repeated generations, fresh maps each time
    for _ in 0..plan.repeats {
        ev.evaluations += 1;
        note("repeat-in-process", &zeep::generate(fs), &mut diffs);
    }
    // threads
    let outs: Vec<GenOutcome> = std::thread::scope(|s| {
        let hs: Vec<_> = (0..plan.threads)
            .map(|_| {
                s.spawn(|| {
                    zeep::install_panic_hook();
                    zeep::generate(fs)
                })
            })
            .collect();
        hs.into_iter().map(|h| h.join().unwrap_or(GenOutcome::Panic("thread".into()))).collect()
    });
    for o in &outs {
        ev.evaluations += 1;
        note("thread", o, &mut diffs);
    }
    // registration orders
    for order in permutations(fs.files.len(), 24, label.len()) {
        ev.evaluations += 1;
        let ftr = fs.to_read_order(&order);
        let o = match zeep::read_prepared(&ftr) {
            Ok(doc) => {
                let mut buf = Vec::new();
                match doc(&mut buf) {
                    zeep::WriteOutcome::Ok => GenOutcome::Ok(String::from_utf8_lossy(&buf).into_owned()),
                    w => GenOutcome::WriteErr(format!("{w:?}")),
                }
            }
            Err(e) => GenOutcome::ReadErr(format!("{e:?}")),
        };
        note("registration-order", &o, &mut diffs);
    }
    // call history on the SAME FilesToRead object
    let ftr = fs.to_read();
    for call in 0..3 {
        ev.evaluations += 1;
        let o = match zeep::read_prepared(&ftr) {
            Ok(doc) => {
                let mut buf = Vec::new();
                // also: write the same document twice
                let mut buf2 = Vec::new();
                let w1 = doc(&mut buf);
                let w2 = doc(&mut buf2);
                if buf != buf2 || w1 != w2 {
                    diffs.push(Diff { axis: "write-twice-same-document", class: "content".into(), detail: String::new() });
                }
                match w1 {
                    zeep::WriteOutcome::Ok => GenOutcome::Ok(String::from_utf8_lossy(&buf).into_owned()),
                    w => GenOutcome::WriteErr(format!("{w:?}")),
                }
            }
            Err(e) => GenOutcome::ReadErr(format!("{e:?}")),
        };
        if call > 0 {
            note("repeated-call-same-object", &o, &mut diffs);
        } else {
            note("first-call-same-object", &o, &mut diffs);
        }
    }
    // concurrent calls on the SAME FilesToRead object (it is Sync): every call has to give the bytes
    // of a call made alone
    if fs.files.len() >= 2 {
        let shared = fs.to_read();
        let outs: Vec<GenOutcome> = std::thread::scope(|s| {
            let hs: Vec<_> = (0..4)
                .map(|_| {
                    s.spawn(|| {
                        zeep::install_panic_hook();
                        let mut v = vec![];
                        for _ in 0..3 {
                            v.push(match zeep::read_prepared(&shared) {
                                Ok(doc) => {
                                    let mut buf = Vec::new();
                                    match doc(&mut buf) {
                                        zeep::WriteOutcome::Ok => GenOutcome::Ok(String::from_utf8_lossy(&buf).into_owned()),
                                        w => GenOutcome::WriteErr(format!("{w:?}")),
                                    }
                                }
                                Err(e) => GenOutcome::ReadErr(format!("{e:?}")),
                            });
                        }
                        v
                    })
                })
                .collect();
            hs.into_iter().flat_map(|h| h.join().unwrap_or_else(|_| vec![GenOutcome::Panic("thread".into())])).collect()
        });
        for o in &outs {
            ev.evaluations += 1;
            note("concurrent-calls-same-object", o, &mut diffs);
        }
    }
    // directory arrangements: the same contents put into a directory in different creation orders
    // (what the directory lists first differs by file system: creation order or a hash of the names),
    // read through the directory entry point the CLI uses; then the same with an unreadable
    // (non-UTF-8) stray sibling under different names, created first or last
    if fs.files.len() >= 2 && fs.total_len() < 300_000 && fs.files.iter().all(|f| !f.0.contains('/') && !f.0.contains("..")) {
        let n = fs.files.len();
        let mut plain: Vec<GenOutcome> = vec![];
        let mut stray: Vec<GenOutcome> = vec![];
        let arrangements: [(usize, bool, Option<(&str, bool)>); 8] =
            [(0, false, None), (1, true, None), (n / 2, false, None), (0, true, Some(("zz-stray.xsd", false))), (1, false, Some(("aa-stray.xsd", true))), (0, false, Some(("0.xsd", true))), (n - 1, true, Some(("M-stray.xsd", false))), (0, false, Some(("zzzz.xsd", true)))];
        for (k, (rot, rev, st)) in arrangements.into_iter().enumerate() {
            let dir = scratch.join(format!("dir{k}"));
            let _ = std::fs::remove_dir_all(&dir);
            std::fs::create_dir_all(&dir).unwrap();
            let mut order: Vec<usize> = (0..n).collect();
            order.rotate_left(rot % n);
            if rev {
                order.reverse();
            }
            if let Some((name, true)) = st {
                std::fs::write(dir.join(name), [0xffu8, 0xfe, 0x00, 0x41, 0xc3, 0x28]).unwrap();
            }
            for i in order {
                std::fs::write(dir.join(&fs.files[i].0), &fs.files[i].1).unwrap();
            }
            if let Some((name, false)) = st {
                std::fs::write(dir.join(name), [0xffu8, 0xfe, 0x00, 0x41, 0xc3, 0x28]).unwrap();
            }
            ev.evaluations += 1;
            let o = zeep::generate_from_dir(&dir.join(&fs.start));
            if st.is_none() { plain.push(o) } else { stray.push(o) }
            let _ = std::fs::remove_dir_all(&dir);
        }
        // (what the directory entry point registers need not be what the in-memory file set holds:
        // only *.xsd siblings count; the arrangements are compared with each other)
        for o in &plain[1..] {
            if o != &plain[0] {
                diffs.push(Diff { axis: "directory-arrangement", class: diff_class(&plain[0], o), detail: format!("{:?}", o).chars().take(200).collect() });
                break;
            }
        }
        // with the stray sibling the outcome may be an error, but the same one every time
        let class_of = |o: &GenOutcome| match o {
            GenOutcome::Ok(t) => format!("ok:{}", hash64(t)),
            GenOutcome::ReadErr(e) => format!("read-error:{}", e.split(':').next().unwrap_or("")),
            GenOutcome::WriteErr(_) => "write-error".to_string(),
            GenOutcome::Panic(_) => "panic".to_string(),
        };
        if let Some(first) = stray.first() {
            for o in &stray[1..] {
                if class_of(o) != class_of(first) {
                    diffs.push(Diff { axis: "directory-arrangement-with-unreadable-sibling", class: "outcome".into(), detail: format!("{} vs {}", class_of(first), class_of(o)) });
                    break;
                }
            }
        }
    }
    // fresh processes
    if plan.procs > 0 {
        let p = scratch.join("fs.json");
        std::fs::write(&p, serde_json::to_string(fs).unwrap()).unwrap();
        let outs: Vec<Option<GenOutcome>> = std::thread::scope(|s| {
            let hs: Vec<_> = (0..plan.procs).map(|_| s.spawn(|| fresh_process(&p))).collect();
            hs.into_iter().map(|h| h.join().ok().flatten()).collect()
        });
        for o in outs {
            ev.evaluations += 1;
            match o {
                Some(o) => note("fresh-process", &o, &mut diffs),
                None => ev.class("fresh-process.no-answer"),
            }
        }
    }
    diffs
}

pub fn run(tier: Tier) -> i32 {
    zeep::install_panic_hook();
    let findings = Findings::load();
    findings.print_fixed("C12");
    let mut ev = Evidence::new(
        "C12",
        tier,
        "exploration",
        "inputs: every repository schema/WSDL + proptest-generated order-sensitive WSDLs (2-9 operations, 1-4 parts per message, body with/without parts=, headers, types inline or in an imported file) + generated import sets whose registered file names are distinct but alike (shared last path segment, case, ./ prefix) + schema sets from the model generator (several namespaces, members of foreign namespaces). Per accepted input the output bytes are compared with the first output across: R repeated in-process generations (each HashMap gets fresh RandomState keys), T threads, K fresh processes, all registration orders of Files::add (<= 4 files; sampled above), three calls on the SAME FilesToRead object, 4 threads x 3 concurrent calls on one shared FilesToRead (multi-file sets), two writes of the same document, and (multi-file sets) eight directory arrangements read through utils::read_input_file_and_xsd_files_at_path: different file creation orders, and an unreadable non-UTF-8 stray sibling under five names created first or last (there the outcomes only have to agree with each other). Non-trivial: input with >= 2 operations or >= 2 message parts or >= 2 files; distinct by input text.",
    );
    ev.assume("hash seeds cannot be chosen, only sampled: each in-process HashMap and each fresh process draws new RandomState keys");
    let plan = Plan { repeats: tier.pick(6, 24), threads: tier.pick(4, 16), procs: tier.pick(8, 64) };
    ev.extra.insert("K_fresh_processes".into(), json!(plan.procs));
    ev.extra.insert("R_repeats".into(), json!(plan.repeats));
    ev.extra.insert("T_threads".into(), json!(plan.threads));
    let scratch = scratch_dir("c12");

    let mut inputs: Vec<(String, FileSet, serde_json::Value)> = vec![];
    for (l, fs) in zeep::repo_corpus() {
        if tier == Tier::Quick && fs.total_len() > 400_000 {
            // the Exchange WSDL (2 x 1 MB inputs, 2 MB output) gets a reduced plan below
            inputs.push((format!("big:{l}"), fs, json!({"repo": l})));
        } else {
            inputs.push((l.clone(), fs, json!({"repo": l})));
        }
    }
    let n_gen = tier.pick(60, 1200);
    let mut runner = crate::common::runner("C12");
    let strat = arb_wsdl();
    for i in 0..n_gen {
        let spec = strat.new_tree(&mut runner).unwrap().current();
        let fs = render(&spec);
        inputs.push((format!("gen{i}"), fs, serde_json::to_value(&spec).unwrap()));
    }

    // schema sets from the model generator: several namespaces, members of foreign namespaces,
    // extensions across files (order-sensitive places other than operations and parts)
    {
        let profile = crate::sgen::Profile { std_names: false, ..crate::sgen::Profile::full() };
        let (cases, _) = crate::pipeline::generate(tier.pick(80, 800), "C12-models", &profile);
        for (i, c) in cases.into_iter().enumerate() {
            inputs.push((format!("model{i}"), c.files, json!({"model_case": i})));
        }
    }

    let names_strat = proptest::collection::vec(0usize..SIMILAR_NAMES.len(), 2..5);
    for i in 0..tier.pick(25, 300) {
        let picks = names_strat.new_tree(&mut runner).unwrap().current();
        inputs.push((format!("names{i}"), render_similar_names(&picks), json!({"similar_names": picks})));
    }

    let wd = Watchdog::start("C12", 300);
    let mut reported = std::collections::BTreeSet::new();
    for (label, fs, origin) in &inputs {
        wd.tick();
        let big = label.starts_with("big:");
        let plan_here = if big { Plan { repeats: 2, threads: 2, procs: 2 } } else { Plan { repeats: plan.repeats, threads: plan.threads, procs: plan.procs } };
        let text_key = format!("{:?}", fs);
        let multi = fs.files.len() >= 2
            || fs.files.iter().any(|f| f.1.matches("<wsdl:operation").count() + f.1.matches("<operation").count() >= 4 || f.1.matches("part ").count() >= 2);
        let before = ev.evaluations;
        let diffs = examine(label, fs, &plan_here, &scratch, &mut ev);
        if ev.evaluations > before {
            ev.case(&text_key, multi);
            ev.evaluations -= 1;
        }
        if label.starts_with("gen") {
            ev.class("input.generated-wsdl");
            if origin["ops"].as_array().is_some_and(|a| a.len() >= 3) {
                ev.class("input.generated-wsdl.ops>=3");
            }
            if origin["ops"].as_array().is_some_and(|a| a.iter().any(|o| o["body_names_part"] == json!(false) && o["in_parts"].as_u64().unwrap_or(0) >= 2)) {
                ev.class("input.generated-wsdl.body-without-parts-multi-part");
            }
            ev.sample(json!({"generated": origin, "files": fs.files.iter().map(|f| f.0.clone()).collect::<Vec<_>>() }));
        } else if label.starts_with("names") {
            ev.class("input.generated-similar-file-names");
            if label == "names0" {
                ev.sample(json!({"similar_names": fs.files.iter().map(|f| f.0.clone()).collect::<Vec<_>>() }));
            }
        } else {
            ev.class("input.repository");
        }
        for d in diffs {
            let sig = format!("C12 axis={} differs={}", d.axis, d.class);
            if !reported.insert(sig.clone()) {
                ev.class("further-differences");
                continue;
            }
            route_failure(&mut ev, &findings, "nondeterministic-output", &sig, json!({"input": label, "origin": origin, "fileset": if fs.total_len() < 20_000 { json!(fs) } else { json!(null) }, "detail": d.detail}));
        }
    }
    wd.stop();
    let _ = std::fs::remove_dir_all(&scratch);
    ev.finish()
}

pub fn replay(case: &serde_json::Value) -> i32 {
    zeep::install_panic_hook();
    let fs: FileSet = if case["fileset"].is_null() {
        let l = case["origin"]["repo"].as_str().expect("repo label");
        zeep::repo_corpus().into_iter().find(|(x, _)| x == l).expect("corpus entry").1
    } else {
        serde_json::from_value(case["fileset"].clone()).expect("fileset")
    };
    let mut ev = Evidence::new("C12", Tier::Quick, "exploration", "replay");
    let scratch = scratch_dir("c12r");
    let diffs = examine("replay", &fs, &Plan { repeats: 12, threads: 8, procs: 16 }, &scratch, &mut ev);
    let _ = std::fs::remove_dir_all(&scratch);
    for d in &diffs {
        println!("axis={} differs={} {}", d.axis, d.class, d.detail);
    }
    if diffs.is_empty() {
        0
    } else {
        println!("VIOLATION property=C12 replay=(this file)");
        1
    }
}
