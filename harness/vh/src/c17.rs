//! C17 — CLI: result depends on file contents only; failures keep the old output.
//!
//! Sandbox directories are built per generated case (input set, working directory, path
//! spelling, output option, pre-existing output, output target, file creation order), the built
//! `zeep` binary is run, and exit status + output bytes are compared with the library's bytes
//! for the same contents (in-process) and with the pre-existing file.

use crate::common::*;
use crate::zeep::{self, FileSet, GenOutcome};
use proptest::prelude::*;
use proptest::strategy::ValueTree;
use rayon::prelude::*;
use serde_json::json;
use std::path::{Path, PathBuf};
use std::process::{Command, Stdio};
use std::time::Duration;
use wait_timeout::ChildExt;

pub const ZEEP_BIN: &str = "/verif/harness/target/repo/debug/zeep";

#[derive(Clone, Copy, Debug, PartialEq, Eq, serde::Serialize, serde::Deserialize)]
pub enum Cwd {
    InputDir,
    Parent,
    Unrelated,
}
#[derive(Clone, Copy, Debug, PartialEq, Eq, serde::Serialize, serde::Deserialize)]
pub enum Spelling {
    Absolute,
    Relative,
    DotSlash,
    Bare,      // only meaningful with Cwd::InputDir
    DotDot,    // dir/../dir/file
}
#[derive(Clone, Copy, Debug, PartialEq, Eq, serde::Serialize, serde::Deserialize)]
pub enum OutOpt {
    Default,
    Absolute,
    Relative,
}
#[derive(Clone, Copy, Debug, PartialEq, Eq, serde::Serialize, serde::Deserialize)]
pub enum Pre {
    Absent,
    Shorter,
    Longer,
}
#[derive(Clone, Copy, Debug, PartialEq, Eq, serde::Serialize, serde::Deserialize)]
pub enum Target {
    Creatable,
    InMissingDir,
    IsDirectory,
}
#[derive(Clone, Copy, Debug, PartialEq, Eq, serde::Serialize, serde::Deserialize)]
pub enum Damage {
    None,
    MissingInput,
    InputIsDirectory,
    NonUtf8Sibling,
    MalformedStart,
    UnresolvedImport,
    EncodedBinding,
    MalformedImportedFile,
    EmptyStart,
    /// reading succeeds, writing fails: a message part resolves to a component without a name
    /// of its own (an xs:attribute), which only the binding writer rejects
    WriterStageFailure,
    /// the process may not write files larger than 4 KiB (RLIMIT_FSIZE, SIGXFSZ ignored): the write
    /// of the output itself fails half way, as on a full disk or an exceeded quota
    OutputWriteFails,
}

#[derive(Clone, Copy, Debug, PartialEq, Eq, Default, serde::Serialize, serde::Deserialize)]
pub enum Layout {
    #[default]
    Plain,
    /// the start file's name has a second dot (orders.v1.wsdl): the default output is orders.v1.rs
    MultiDotName,
    /// the sibling files are symbolic links to files kept elsewhere
    SymlinkedSiblings,
    /// the start file is a symbolic link to a file kept elsewhere (its siblings are those of the
    /// directory the link is in, not of the link's target)
    SymlinkedInput,
    /// a longer `<output>.tmp` is lying around (what a killed run leaves behind)
    StaleTemporary,
}

#[derive(Clone, Debug, serde::Serialize, serde::Deserialize)]
pub struct Case {
    pub input: u16,
    pub cwd: Cwd,
    pub spelling: Spelling,
    pub out: OutOpt,
    pub pre: Pre,
    pub target: Target,
    pub damage: Damage,
    pub order: u16,
    #[serde(default)]
    pub layout: Layout,
}

fn arb_case(n_inputs: usize) -> impl Strategy<Value = Case> {
    (
        0u16..n_inputs as u16,
        prop_oneof![Just(Cwd::InputDir), Just(Cwd::Parent), Just(Cwd::Unrelated)],
        prop_oneof![Just(Spelling::Absolute), Just(Spelling::Relative), Just(Spelling::DotSlash), Just(Spelling::Bare), Just(Spelling::DotDot)],
        prop_oneof![Just(OutOpt::Default), Just(OutOpt::Absolute), Just(OutOpt::Relative)],
        prop_oneof![Just(Pre::Absent), Just(Pre::Shorter), Just(Pre::Longer)],
        prop_oneof![6 => Just(Target::Creatable), 1 => Just(Target::InMissingDir), 1 => Just(Target::IsDirectory)],
        prop_oneof![
            8 => Just(Damage::None),
            1 => Just(Damage::MissingInput),
            1 => Just(Damage::InputIsDirectory),
            1 => Just(Damage::NonUtf8Sibling),
            1 => Just(Damage::MalformedStart),
            1 => Just(Damage::UnresolvedImport),
            1 => Just(Damage::EncodedBinding),
            1 => Just(Damage::MalformedImportedFile),
            1 => Just(Damage::EmptyStart),
            2 => Just(Damage::WriterStageFailure),
            2 => Just(Damage::OutputWriteFails),
        ],
        any::<u16>(),
        prop_oneof![4 => Just(Layout::Plain), 1 => Just(Layout::MultiDotName), 1 => Just(Layout::SymlinkedSiblings), 1 => Just(Layout::SymlinkedInput), 1 => Just(Layout::StaleTemporary)],
    )
        .prop_map(|(input, cwd, spelling, out, pre, target, damage, order, layout)| {
            let mut c = Case { input, cwd, spelling, out, pre, target, damage, order, layout };
            // Bare needs the input directory as cwd; in other cwds it degrades to Relative
            if c.spelling == Spelling::Bare && c.cwd != Cwd::InputDir {
                c.spelling = Spelling::Relative;
            }
            // a default output has no separate target to damage
            if c.out == OutOpt::Default {
                c.target = Target::Creatable;
            }
            c
        })
}

fn inputs() -> Vec<(String, FileSet)> {
    let mut v: Vec<(String, FileSet)> = vec![];
    let c15 = crate::c15::corpus_for(Tier::Quick);
    for (l, fs) in c15 {
        if l.starts_with("mini/") || l == "generated/doc3" || l == "generated/doc7" || l.ends_with("tempconverter.wsdl") || l.ends_with("hello.wsdl") || l.ends_with("blz.wsdl") || l.ends_with("single-complex.xsd") {
            v.push((l, fs));
        }
    }
    let mut runner = crate::common::runner("C17-inputs");
    let ws = crate::c12::arb_wsdl_pub();
    for i in 0..6 {
        let mut spec = ws.new_tree(&mut runner).unwrap().current();
        spec.split_types = i % 2 == 0;
        v.push((format!("gen-wsdl{i}"), crate::c12::render(&spec)));
    }
    v.push(("graph-diamond".into(), crate::c11::render(&crate::c11::Graph { n: 4, edges: vec![vec![1, 2], vec![3], vec![3], vec![0]], start: 0, noise: crate::c11::Noise::None, same_suffix: false, declare_prefixes: true, tns_of: vec![], includes: vec![] })));
    v
}

const WRITER_FAILS_WSDL: &str = r#"<?xml version="1.0"?>
<wsdl:definitions xmlns:wsdl="http://schemas.xmlsoap.org/wsdl/" xmlns:soap="http://schemas.xmlsoap.org/wsdl/soap/" xmlns:xs="http://www.w3.org/2001/XMLSchema" xmlns:tns="http://example.org/wf" targetNamespace="http://example.org/wf">
  <wsdl:types>
    <xs:schema targetNamespace="http://example.org/wf" elementFormDefault="qualified">
      <xs:attribute name="Ping" type="xs:string"/>
      <xs:element name="Pong"><xs:complexType><xs:sequence><xs:element name="text" type="xs:string"/></xs:sequence></xs:complexType></xs:element>
    </xs:schema>
  </wsdl:types>
  <wsdl:message name="PingIn"><wsdl:part name="body" element="tns:Ping"/></wsdl:message>
  <wsdl:message name="PingOut"><wsdl:part name="body" element="tns:Pong"/></wsdl:message>
  <wsdl:portType name="PingPort"><wsdl:operation name="Ping"><wsdl:input message="tns:PingIn"/><wsdl:output message="tns:PingOut"/></wsdl:operation></wsdl:portType>
  <wsdl:binding name="PingBinding" type="tns:PingPort">
    <soap:binding style="document" transport="http://schemas.xmlsoap.org/soap/http"/>
    <wsdl:operation name="Ping"><soap:operation soapAction="http://example.org/wf/Ping"/><wsdl:input><soap:body use="literal"/></wsdl:input><wsdl:output><soap:body use="literal"/></wsdl:output></wsdl:operation>
  </wsdl:binding>
  <wsdl:service name="PingService"><wsdl:port name="PingPort" binding="tns:PingBinding"><soap:address location="http://localhost:8080/ping"/></wsdl:port></wsdl:service>
</wsdl:definitions>"#;

fn damaged(fs: &FileSet, d: Damage) -> FileSet {
    if d == Damage::WriterStageFailure {
        // keep the siblings, swap the start file's content
        let mut out = fs.clone();
        let si = out.files.iter().position(|f| f.0 == out.start).unwrap();
        out.files[si].1 = WRITER_FAILS_WSDL.to_string();
        return out;
    }
    let mut fs = fs.clone();
    let si = fs.files.iter().position(|f| f.0 == fs.start).unwrap();
    match d {
        Damage::MalformedStart => {
            let t = &fs.files[si].1;
            let cut = (t.len() * 2 / 3..t.len()).find(|i| t.is_char_boundary(*i)).unwrap_or(0);
            fs.files[si].1 = t[..cut].to_string();
        }
        Damage::EmptyStart => fs.files[si].1 = String::new(),
        Damage::UnresolvedImport => {
            let t = fs.files[si].1.clone();
            let imp = "<xs:import xmlns:xs=\"http://www.w3.org/2001/XMLSchema\" namespace=\"urn:nowhere\" schemaLocation=\"does-not-exist.xsd\"/>";
            // put it first inside the (first) schema element
            if let Some(p) = t.find("<xs:schema").and_then(|p| t[p..].find('>').map(|q| p + q + 1)) {
                fs.files[si].1 = format!("{}{}{}", &t[..p], imp, &t[p..]);
            }
        }
        Damage::EncodedBinding => {
            fs.files[si].1 = fs.files[si].1.replace("use=\"literal\"", "use=\"encoded\"");
        }
        Damage::MalformedImportedFile => {
            if fs.files.len() > 1 {
                let oi = (0..fs.files.len()).find(|i| *i != si).unwrap();
                fs.files[oi].1 = "<xs:schema xmlns:xs=\"http://www.w3.org/2001/XMLSchema\"><broken".to_string();
            }
        }
        _ => {}
    }
    fs
}

struct Run {
    exit: Option<i32>,
    stderr: String,
    timed_out: bool,
}

fn run_cli(cwd: &Path, args: &[String], limit_file_size: bool) -> Run {
    let mut cmd = Command::new(ZEEP_BIN);
    cmd.args(args).current_dir(cwd).stdin(Stdio::null()).stdout(Stdio::null()).stderr(Stdio::piped()).env_remove("RUST_LOG");
    if limit_file_size {
        use std::os::unix::process::CommandExt;
        unsafe {
            cmd.pre_exec(|| {
                // writes beyond 4 KiB fail with EFBIG instead of killing the process
                libc::signal(libc::SIGXFSZ, libc::SIG_IGN);
                let lim = libc::rlimit { rlim_cur: 4096, rlim_max: 4096 };
                libc::setrlimit(libc::RLIMIT_FSIZE, &lim);
                Ok(())
            });
        }
    }
    let mut child = match cmd.spawn() {
        Ok(c) => c,
        Err(e) => return Run { exit: None, stderr: format!("spawn: {e}"), timed_out: false },
    };
    match child.wait_timeout(Duration::from_secs(30)).ok().flatten() {
        Some(st) => {
            let mut s = String::new();
            if let Some(mut e) = child.stderr.take() {
                use std::io::Read;
                let _ = e.read_to_string(&mut s);
            }
            use std::os::unix::process::ExitStatusExt;
            Run { exit: st.code().or(st.signal().map(|x| 128 + x)), stderr: s, timed_out: false }
        }
        None => {
            let _ = child.kill();
            let _ = child.wait();
            Run { exit: None, stderr: String::new(), timed_out: true }
        }
    }
}

pub struct Verdict {
    pub fail: Option<(String, String)>,
    pub expected_success: Option<bool>,
    pub inconclusive: bool,
}

/// Build the sandbox, run the CLI, judge.
const NON_UTF8: [u8; 6] = [0xff, 0xfe, 0x00, 0x41, 0xc3, 0x28];

/// Create the input directory: the files in a case-chosen order (directory enumeration order follows
/// creation order or a hash of the names, depending on the file system), siblings optionally as
/// symbolic links, the non-UTF-8 stray under the given name, first or last.
fn populate(indir: &Path, elsewhere: &Path, fs: &FileSet, case: &Case, stray: &str, stray_first: bool) {
    let mut order: Vec<usize> = (0..fs.files.len()).collect();
    order.rotate_left(case.order as usize % fs.files.len().max(1));
    if case.order & 0x100 != 0 {
        order.reverse();
    }
    if case.damage == Damage::NonUtf8Sibling && stray_first {
        std::fs::write(indir.join(stray), NON_UTF8).unwrap();
    }
    for i in &order {
        let (n, c) = &fs.files[*i];
        if case.damage == Damage::MissingInput && *n == fs.start {
            continue;
        }
        if case.damage == Damage::InputIsDirectory && *n == fs.start {
            std::fs::create_dir_all(indir.join(n)).unwrap();
            continue;
        }
        if case.layout == Layout::SymlinkedInput && *n == fs.start {
            // the target directory holds a decoy sibling for every real one
            let store = elsewhere.join("linked");
            std::fs::create_dir_all(&store).unwrap();
            std::fs::write(store.join(n), c).unwrap();
            for (other, _) in fs.files.iter().filter(|f| f.0 != fs.start && f.0.ends_with(".xsd")).take(1) {
                std::fs::write(store.join(other), "<xs:schema xmlns:xs=\"http://www.w3.org/2001/XMLSchema\" targetNamespace=\"urn:decoy\"><xs:complexType name=\"Decoy\"><xs:sequence/></xs:complexType></xs:schema>").unwrap();
            }
            let _ = std::fs::remove_file(indir.join(n));
            std::os::unix::fs::symlink(store.join(n), indir.join(n)).unwrap();
            continue;
        }
        if case.layout == Layout::SymlinkedSiblings && *n != fs.start {
            let store = elsewhere.join("store");
            std::fs::create_dir_all(&store).unwrap();
            std::fs::write(store.join(n), c).unwrap();
            let _ = std::fs::remove_file(indir.join(n));
            std::os::unix::fs::symlink(store.join(n), indir.join(n)).unwrap();
            continue;
        }
        std::fs::write(indir.join(n), c).unwrap();
    }
    if case.damage == Damage::NonUtf8Sibling && !stray_first {
        std::fs::write(indir.join(stray), NON_UTF8).unwrap();
    }
    // unrelated non-xsd files never matter
    std::fs::write(indir.join("README.txt"), "not a schema").unwrap();
}

pub fn evaluate(case: &Case, base: &FileSet, root: &Path) -> Verdict {
    let _ = std::fs::remove_dir_all(root);
    let indir = root.join("work").join("in");
    let other = root.join("elsewhere");
    std::fs::create_dir_all(&indir).unwrap();
    std::fs::create_dir_all(&other).unwrap();
    std::fs::create_dir_all(root.join("outdir")).unwrap();
    let mut fs = damaged(base, case.damage);
    if case.layout == Layout::MultiDotName {
        // a second dot in the start file's name (unless another file refers to it by name)
        let old_name = fs.start.clone();
        if !fs.files.iter().any(|f| f.0 != old_name && f.1.contains(&old_name)) {
            if let Some((stem, ext)) = old_name.rsplit_once('.') {
                let new_name = format!("{stem}.v1.{ext}");
                for f in &mut fs.files {
                    if f.0 == old_name {
                        f.0 = new_name.clone();
                    }
                }
                fs.start = new_name;
            }
        }
    }
    let fs = fs;
    populate(&indir, &other, &fs, case, "zz-binary.xsd", false);

    let cwd = match case.cwd {
        Cwd::InputDir => indir.clone(),
        Cwd::Parent => root.join("work"),
        Cwd::Unrelated => other.clone(),
    };
    let abs_input = indir.join(&fs.start);
    let rel_from = |from: &Path| -> String {
        match case.cwd {
            Cwd::InputDir => fs.start.clone(),
            Cwd::Parent => format!("in/{}", fs.start),
            Cwd::Unrelated => {
                let _ = from;
                format!("../work/in/{}", fs.start)
            }
        }
    };
    let input_arg = match case.spelling {
        Spelling::Absolute => abs_input.display().to_string(),
        Spelling::Relative | Spelling::Bare => rel_from(&cwd),
        Spelling::DotSlash => format!("./{}", rel_from(&cwd)),
        Spelling::DotDot => match case.cwd {
            Cwd::InputDir => format!("../in/{}", fs.start),
            Cwd::Parent => format!("in/../in/{}", fs.start),
            Cwd::Unrelated => format!("../work/in/../in/{}", fs.start),
        },
    };
    // where the output must land
    let (out_arg, out_abs): (Option<String>, PathBuf) = match (case.out, case.target) {
        (OutOpt::Default, _) => (None, abs_input.with_extension("rs")),
        (OutOpt::Absolute, Target::Creatable) => (Some(root.join("outdir/gen.rs").display().to_string()), root.join("outdir/gen.rs")),
        (OutOpt::Relative, Target::Creatable) => (Some("gen_out.rs".into()), cwd.join("gen_out.rs")),
        (OutOpt::Absolute, Target::InMissingDir) => (Some(root.join("nodir/gen.rs").display().to_string()), root.join("nodir/gen.rs")),
        (OutOpt::Relative, Target::InMissingDir) => (Some("nodir/sub/gen.rs".into()), cwd.join("nodir/sub/gen.rs")),
        (OutOpt::Absolute, Target::IsDirectory) => (Some(root.join("outdir").display().to_string()), root.join("outdir")),
        (OutOpt::Relative, Target::IsDirectory) => {
            std::fs::create_dir_all(cwd.join("adir")).unwrap();
            (Some("adir".into()), cwd.join("adir"))
        }
    };
    // what the library says about these contents
    let lib = zeep::generate(&fs);
    let lib_ok = matches!(lib, GenOutcome::Ok(_));
    let structural_failure = matches!(case.damage, Damage::MissingInput | Damage::InputIsDirectory);
    let expected_success: Option<bool> = if structural_failure || case.target != Target::Creatable || case.damage == Damage::OutputWriteFails {
        Some(false)
    } else if case.damage == Damage::NonUtf8Sibling {
        None // the CLI reads every sibling eagerly; failing here is tolerated, succeeding too
    } else {
        Some(lib_ok)
    };
    // pre-existing output
    let new_len = if let GenOutcome::Ok(t) = &lib { t.len() } else { 20_000 };
    let old: Option<Vec<u8>> = if case.target == Target::Creatable {
        match case.pre {
            Pre::Absent => None,
            Pre::Shorter => Some(b"// OLD OUTPUT (short)\n".to_vec()),
            Pre::Longer => Some(format!("// OLD OUTPUT (long)\n{}", "// stale line\n".repeat(new_len / 14 + 400)).into_bytes()),
        }
    } else {
        None
    };
    if let Some(o) = &old {
        if let Some(p) = out_abs.parent() {
            let _ = std::fs::create_dir_all(p);
        }
        std::fs::write(&out_abs, o).unwrap();
    }

    if case.layout == Layout::StaleTemporary {
        let mut t = out_abs.clone().into_os_string();
        t.push(".tmp");
        if let Some(p) = out_abs.parent() {
            if p.is_dir() {
                let _ = std::fs::write(std::path::PathBuf::from(t), format!("// left behind by a killed run\n{}", "// stale temporary line\n".repeat(new_len / 20 + 600)));
            }
        }
    }
    let mut args = vec!["--input".to_string(), input_arg.clone()];
    if let Some(o) = &out_arg {
        args.push("--output".into());
        args.push(o.clone());
    }
    let run = run_cli(&cwd, &args, case.damage == Damage::OutputWriteFails);
    if run.timed_out || run.exit.is_none() {
        return Verdict { fail: None, expected_success, inconclusive: true };
    }
    let exit = run.exit.unwrap();
    let now: Option<Vec<u8>> = if out_abs.is_file() { std::fs::read(&out_abs).ok() } else { None };
    let stderr_head: String = run.stderr.lines().find(|l| !l.trim().is_empty()).unwrap_or("").chars().take(160).collect();
    let spelling_class = format!("{:?}/{:?}", case.spelling, case.cwd);

    let fail = if exit == 0 {
        match (&lib, &now) {
            (GenOutcome::Ok(t), Some(bytes)) if bytes == t.as_bytes() => {
                if expected_success == Some(false) {
                    Some(("success-reported-for-failing-case".to_string(), format!("damage {:?} target {:?}", case.damage, case.target)))
                } else {
                    None
                }
            }
            (GenOutcome::Ok(t), Some(bytes)) => {
                if bytes.len() > t.len() && bytes.starts_with(t.as_bytes()) {
                    Some(("stale-trailing-bytes".to_string(), format!("{} bytes after the generated text", bytes.len() - t.len())))
                } else {
                    Some(("output-differs-from-library".to_string(), format!("cli {} bytes, library {} bytes", bytes.len(), t.len())))
                }
            }
            (GenOutcome::Ok(_), None) => Some(("exit-0-but-no-output-file".to_string(), format!("expected at {}", out_abs.display()))),
            (_, _) => Some(("exit-0-although-generation-fails".to_string(), format!("library outcome: {}", format!("{lib:?}").chars().take(120).collect::<String>()))),
        }
    } else {
        // failure: the old output must be untouched
        // (a new, possibly empty file where none existed is not what the statement forbids)
        if now != old && old.is_some() {
            let effect = match (&old, &now) {
                (Some(_), Some(n)) if n.is_empty() => "old-output-truncated",
                (Some(_), Some(_)) => "old-output-overwritten",
                (Some(_), None) => "old-output-removed",
                (None, _) => unreachable!(),
            };
            let stage = if structural_failure {
                "input-path"
            } else if case.target != Target::Creatable {
                "output-target"
            } else if case.damage == Damage::OutputWriteFails {
                "output-file-write"
            } else if matches!(lib, GenOutcome::WriteErr(_)) {
                "writing"
            } else if !lib_ok {
                "generation"
            } else {
                "spurious"
            };
            Some((format!("failed-run:{effect}:stage={stage}"), format!("exit {exit}; {stderr_head}")))
        } else if expected_success == Some(true) {
            Some((format!("spurious-failure:spelling={spelling_class}"), format!("exit {exit}; {stderr_head}")))
        } else {
            None
        }
    };
    let mut fail = fail;
    if fail.is_none() && case.damage == Damage::NonUtf8Sibling && case.out == OutOpt::Default {
        // whatever the tool does with an unreadable sibling, it must not depend on where the
        // directory lists that sibling: same contents, other names and creation orders of the stray
        let first = (exit == 0, now.clone());
        for (k, (stray, stray_first)) in [("aa-binary.xsd", true), ("m0-binary.xsd", false), ("0.xsd", true), ("zzzz.xsd", true), ("B.xsd", false)].into_iter().enumerate() {
            let twin_root = root.join(format!("twin{k}"));
            let tin = twin_root.join("work").join("in");
            let tel = twin_root.join("elsewhere");
            std::fs::create_dir_all(&tin).unwrap();
            std::fs::create_dir_all(&tel).unwrap();
            populate(&tin, &tel, &fs, case, stray, stray_first);
            let r = run_cli(&tin, &["--input".to_string(), tin.join(&fs.start).display().to_string()], false);
            if r.timed_out || r.exit.is_none() {
                continue;
            }
            let out = tin.join(&fs.start).with_extension("rs");
            let got = (r.exit == Some(0), if out.is_file() { std::fs::read(&out).ok() } else { None });
            if got.0 != first.0 || (got.0 && got.1 != first.1) {
                fail = Some(("outcome-depends-on-where-the-directory-lists-a-sibling".to_string(), format!("stray sibling zz-binary.xsd created last: exit0={}; stray {stray} created {}: exit0={}", first.0, if stray_first { "first" } else { "last" }, got.0)));
                break;
            }
        }
    }
    Verdict { fail, expected_success, inconclusive: false }
}

pub fn run(tier: Tier) -> i32 {
    zeep::install_panic_hook();
    let findings = Findings::load();
    findings.print_fixed("C17");
    let mut ev = Evidence::new(
        "C17",
        tier,
        "exploration",
        "proptest-generated CLI scenarios: input set (repository and generated schema/WSDL sets, optionally damaged: missing input, directory as input, non-UTF-8 sibling, malformed/empty start file, unresolved import, encoded binding, malformed imported file, a document that reads but fails while being written, an output file whose write fails half way under a file-size limit) x working directory (input dir / parent / unrelated) x path spelling (absolute, relative, ./, bare file name, dir/../dir) x output (default <input>.rs, --output absolute / relative) x pre-existing output (absent / shorter / longer than the new text) x output target (creatable, inside a missing directory, an existing directory) x file creation order in the directory x layout (plain, a second dot in the start file's name, siblings as symbolic links, the start file as a symbolic link into a directory with decoy siblings, a longer stale <output>.tmp lying around). With a non-UTF-8 sibling the run is repeated with that sibling under other names and creation positions and must end the same way. Oracle: exit 0 => output bytes equal the library's bytes for the same contents and nothing stale follows; exit != 0 => the pre-existing output is byte-identical (or still absent); where the library accepts the contents and the target is creatable the exit status must be 0 for every spelling. Non-trivial: non-absolute spelling, or pre-existing output, or a failing case; distinct by the whole scenario.",
    );
    ev.assume("the checks run as root, so unreadable/unwritable permission bits cannot be used; an uncreatable target and a non-UTF-8 sibling stand in for them");
    ev.assume("library bytes are computed in-process from the same contents (requires C12 determinism, which holds on this tree)");
    if !Path::new(ZEEP_BIN).is_file() {
        ev.inconclusive = Some(format!("{ZEEP_BIN} has not been built"));
        ev.evaluations = 1;
        return ev.finish();
    }
    let inputs = inputs();
    let n = tier.pick(500, 8_000);
    let mut runner = crate::common::runner("C17");
    let strat = arb_case(inputs.len());
    let mut trees = vec![];
    let mut cases = vec![];
    for _ in 0..n {
        let t = strat.new_tree(&mut runner).unwrap();
        cases.push(t.current());
        trees.push(t);
    }
    let scratch = scratch_dir("c17");
    let verdicts: Vec<Verdict> = cases
        .par_iter()
        .enumerate()
        .map(|(i, c)| {
            zeep::install_panic_hook();
            let root = scratch.join(format!("case{i}"));
            let v = evaluate(c, &inputs[c.input as usize].1, &root);
            let _ = std::fs::remove_dir_all(&root);
            v
        })
        .collect();

    let mut reported = std::collections::BTreeSet::new();
    let mut inconclusive = 0;
    for (i, (c, v)) in cases.iter().zip(&verdicts).enumerate() {
        let nt = c.spelling != Spelling::Absolute || c.pre != Pre::Absent || c.damage != Damage::None || c.target != Target::Creatable;
        ev.case(&format!("{c:?}"), nt);
        ev.class(&format!("spelling.{:?}", c.spelling));
        ev.class(&format!("damage.{:?}", c.damage));
        ev.class(&format!("layout.{:?}", c.layout));
        if c.damage == Damage::WriterStageFailure && v.expected_success == Some(true) {
            // the fixture must fail in the writer; if it ever stops doing so the class is empty
            ev.class("damage.WriterStageFailure.fixture-no-longer-fails");
        }
        ev.class(&format!("pre.{:?}", c.pre));
        ev.class(&format!("target.{:?}", c.target));
        ev.class(&format!("expected.{}", match v.expected_success { Some(true) => "success", Some(false) => "failure", None => "either" }));
        if v.inconclusive {
            inconclusive += 1;
            continue;
        }
        if i < 3 {
            ev.sample(json!({"scenario": c, "input": inputs[c.input as usize].0}));
        }
        if let Some((sig, detail)) = &v.fail {
            let sig = format!("C17 {sig}");
            if !reported.insert(sig.clone()) {
                ev.class("further-failing-scenarios");
                continue;
            }
            // shrink the scenario
            let want = sig.clone();
            let sroot = scratch.join("shrink");
            let small = shrink(
                &mut trees[i],
                |cc| evaluate(cc, &inputs[cc.input as usize].1, &sroot).fail.is_some_and(|(s, _)| format!("C17 {s}") == want),
                60,
            );
            let _ = std::fs::remove_dir_all(&sroot);
            route_failure(&mut ev, &findings, "cli-scenario", &sig, json!({"scenario": small, "input": inputs[small.input as usize].0, "detail": detail}));
        }
    }
    let _ = std::fs::remove_dir_all(&scratch);
    if inconclusive * 2 > cases.len() {
        ev.inconclusive = Some(format!("{inconclusive} of {} CLI runs timed out or could not be started", cases.len()));
    }
    ev.finish()
}

pub fn replay(case: &serde_json::Value) -> i32 {
    zeep::install_panic_hook();
    let c: Case = serde_json::from_value(case["scenario"].clone()).expect("C17 scenario");
    let inputs = inputs();
    let scratch = scratch_dir("c17r");
    let v = evaluate(&c, &inputs[c.input as usize].1, &scratch.join("case"));
    let _ = std::fs::remove_dir_all(&scratch);
    println!("scenario {c:?}\n -> {:?}", v.fail);
    if v.fail.is_some() {
        println!("VIOLATION property=C17 replay=(this file)");
        1
    } else {
        0
    }
}
