//! Abstract values of generated types: generated from the schema model (boundary-biased,
//! schema-valid), rendered as (a) Rust expressions in the generated types, (b) the expected
//! XML infoset, (c) instance documents with surface variation.

use crate::c02::{Failure, struct_path};
use crate::expect::{self, ExpField, ExpStruct, ExpTy, StructKind, Wrap};
use crate::model::*;
use crate::outscan::Scan;
use std::collections::BTreeMap;

/// deterministic choice tape filled by proptest (so that shrinking works on it)
pub struct Tape<'a> {
    pub data: &'a [u16],
    pub pos: usize,
}

impl Tape<'_> {
    pub fn next(&mut self) -> u16 {
        let v = if self.data.is_empty() { 0 } else { self.data[self.pos % self.data.len()] };
        self.pos += 1;
        v
    }
    pub fn below(&mut self, n: usize) -> usize {
        if n == 0 { 0 } else { crate::common::idx(self.next(), n) }
    }
    pub fn flag(&mut self) -> bool {
        self.next() & 1 == 1
    }
}

#[derive(Clone, Debug)]
pub enum Node {
    Leaf(Leaf),
    Struct(StructV),
}

#[derive(Clone, Debug)]
pub struct Leaf {
    pub builtin: String,
    /// canonical lexical form (what a serializer is expected to write, up to value-space equality)
    pub lexical: String,
    /// Rust expression of the carrier type
    pub rust: String,
}

#[derive(Clone, Debug)]
pub struct StructV {
    pub q: QRef,
    pub body: StructBody,
}

#[derive(Clone, Debug)]
pub enum StructBody {
    /// one entry per expected field, in field order
    Complex(Vec<Vec<Node>>),
    /// simple type: text content; `inner` is the nested value when the base is a named simple type
    Simple { leaf: Leaf, inner: Option<Box<StructV>> },
}

// ---- leaf generation --------------------------------------------------------------------------

const TEXTS: [&str; 9] = ["alpha", "x", "Hello World", "a<b&c>d", "quote\"s and 'apostrophes'", "héllo wörld", "日本語", "emoji 😀 ok", "a]]>b"];

pub fn leaf_for(builtin: &str, facets: Option<&Facets>, t: &mut Tape, violate: bool) -> Leaf {
    let prim = expect::prim_for(builtin);
    let mk = |lexical: String, rust: String| Leaf { builtin: builtin.to_string(), lexical, rust };
    let str_leaf = |s: String| {
        let r = format!("{s:?}.to_string()");
        mk(s, r)
    };
    let f = facets.cloned().unwrap_or_default();
    match prim {
        "bool" => {
            let b = t.flag();
            mk(b.to_string(), b.to_string())
        }
        "f32" | "f64" => {
            let pool = ["0", "1", "-1", "2.5", "-0.125", "30", "1000000", "0.001", "123456.75"];
            let s = pool[t.below(pool.len())];
            mk(s.to_string(), format!("{s}{}", if s.contains('.') { "" } else { ".0" }) + prim)
        }
        "String" => {
            // string-like builtins carried as String
            let s: String = match builtin {
                "date" => ["2024-02-29", "1999-12-31", "2024-02-29Z", "2001-10-26+02:00"][t.below(4)].to_string(),
                "dateTime" => ["2024-02-29T12:30:00Z", "1999-12-31T23:59:59", "2002-10-10T12:00:00-05:00", "2024-01-01T00:00:00.123Z"][t.below(4)].to_string(),
                "time" => ["12:30:00", "23:59:59.5", "00:00:00Z"][t.below(3)].to_string(),
                "duration" => ["P1DT2H", "PT0S", "-P1Y2M3DT4H5M6.7S"][t.below(3)].to_string(),
                "language" => ["en", "en-US", "de-CH"][t.below(3)].to_string(),
                "anyURI" => ["http://example.org/a?b=c&d=e", "urn:isbn:0451450523", "relative/path#frag"][t.below(3)].to_string(),
                "base64Binary" => ["SGVsbG8=", "AA==", "Zm9vYmFy"][t.below(3)].to_string(),
                "hexBinary" => ["0FB7", "00", "DEADBEEF"][t.below(3)].to_string(),
                "normalizedString" if f.is_empty() => ["plain text", "x", "héllo"][t.below(3)].to_string(),
                _ => {
                    // xs:string, possibly restricted
                    if !f.enumeration.is_empty() {
                        if violate { format!("{}-not-listed", f.enumeration[0]) } else { f.enumeration[t.below(f.enumeration.len())].clone() }
                    } else if f.length.is_some() || f.min_length.is_some() || f.max_length.is_some() {
                        let lo = f.length.or(f.min_length).unwrap_or(0) as usize;
                        let hi = f.length.or(f.max_length).unwrap_or(lo as u8 + 6) as usize;
                        // (an empty text node is not kept by yaserde, for hand-written types either)
                        let lo1 = if hi >= 1 { lo.max(1) } else { lo };
                        let has_upper = f.length.is_some() || f.max_length.is_some();
                        let too_short = violate && lo >= 2 && (!has_upper || t.flag());
                        let n = if too_short { lo - 1 } else if violate { hi + 1 + t.below(3) } else { lo1 + t.below(hi.saturating_sub(lo1) + 1) };
                        let alphabet = ['a', 'é', 'b', '😀', 'c', 'Z', '7'];
                        let mut s: String = (0..n).map(|k| alphabet[(k + t.pos) % alphabet.len()]).collect();
                        if s.is_empty() && !violate {
                            // an empty text node is not written by yaserde; only use it when forced
                            s = String::new();
                        }
                        s
                    } else {
                        TEXTS[t.below(TEXTS.len())].to_string()
                    }
                }
            };
            // numeric builtin restricted by a simple type: carried as String, text is a numeral
            str_leaf(s)
        }
        int => {
            let (lo, hi): (i128, i128) = match int {
                "i8" => (i8::MIN as i128, i8::MAX as i128),
                "i16" => (i16::MIN as i128, i16::MAX as i128),
                "i32" => (i32::MIN as i128, i32::MAX as i128),
                "i64" => (i64::MIN as i128, i64::MAX as i128),
                "u8" => (0, u8::MAX as i128),
                "u16" => (0, u16::MAX as i128),
                "u32" => (0, u32::MAX as i128),
                _ => (0, u64::MAX as i128),
            };
            // the XSD value space of the builtin inside the carrier's range
            let (lo, hi) = match builtin {
                "negativeInteger" => (lo, -1),
                "nonPositiveInteger" => (lo, 0),
                "nonNegativeInteger" => (0, hi),
                "positiveInteger" => (1, hi),
                _ => (lo, hi),
            };
            let pool = [lo, hi, lo + 1, hi - 1, 0i128.clamp(lo, hi), 1i128.clamp(lo, hi), (-1i128).clamp(lo, hi), 42i128.clamp(lo, hi)];
            let v = pool[t.below(pool.len())];
            mk(v.to_string(), format!("{v}{int}"))
        }
    }
}

/// A leaf for a member typed by a numeric builtin that is *carried as String* inside a simple-type
/// struct (restriction of a non-string builtin): the text is a numeral honouring the facets.
pub fn numeric_text_for(builtin: &str, facets: &Facets, t: &mut Tape, violate: bool) -> Leaf {
    let prim = expect::prim_for(builtin);
    let s: String = match prim {
        "bool" => if t.flag() { "true" } else { "false" }.to_string(),
        "f32" | "f64" => ["0", "2.5", "-1", "30"][t.below(4)].to_string(),
        "String" => return leaf_for(builtin, Some(facets), t, violate),
        int => {
            let (mut lo, mut hi): (i128, i128) = match int {
                "i8" => (i8::MIN as i128, i8::MAX as i128),
                "i16" => (i16::MIN as i128, i16::MAX as i128),
                "i32" => (i32::MIN as i128, i32::MAX as i128),
                "i64" => (i64::MIN as i128, i64::MAX as i128),
                "u8" => (0, u8::MAX as i128),
                "u16" => (0, u16::MAX as i128),
                "u32" => (0, u32::MAX as i128),
                _ => (0, u64::MAX as i128),
            };
            match builtin {
                "negativeInteger" => hi = -1,
                "nonPositiveInteger" => hi = 0,
                "nonNegativeInteger" => lo = 0,
                "positiveInteger" => lo = 1,
                _ => {}
            }
            let (blo, bhi) = (lo, hi);
            if let Some(v) = facets.min_inclusive {
                lo = lo.max(v as i128);
            }
            if let Some(v) = facets.min_exclusive {
                lo = lo.max(v as i128 + 1);
            }
            if let Some(v) = facets.max_inclusive {
                hi = hi.min(v as i128);
            }
            if let Some(v) = facets.max_exclusive {
                hi = hi.min(v as i128 - 1);
            }
            if violate {
                // just outside a bound that exists (and still inside the base type)
                let cands: Vec<i128> = [
                    facets.min_inclusive.map(|v| v as i128 - 1),
                    facets.max_inclusive.map(|v| v as i128 + 1),
                    facets.min_exclusive.map(|v| v as i128),
                    facets.max_exclusive.map(|v| v as i128),
                ]
                .into_iter()
                .flatten()
                .filter(|v| *v >= blo && *v <= bhi)
                .collect();
                if cands.is_empty() { lo.to_string() } else { cands[t.below(cands.len())].to_string() }
            } else if lo > hi {
                lo.to_string() // empty value space: nothing valid exists; callers avoid such types
            } else {
                let pool = [lo, hi, (lo + hi) / 2, (lo + 1).min(hi), (hi - 1).max(lo)];
                pool[t.below(pool.len())].to_string()
            }
        }
    };
    Leaf { builtin: builtin.to_string(), lexical: s.clone(), rust: format!("{s:?}.to_string()") }
}

/// does this facet set admit a violation we know how to build?
pub fn violable(builtin: &str, f: &Facets) -> bool {
    let prim = expect::prim_for(builtin);
    match prim {
        "String" => (builtin == "string" || builtin == "normalizedString") && (!f.enumeration.is_empty() || f.length.is_some() || f.max_length.is_some() || f.min_length.is_some_and(|m| m >= 2)),
        "bool" | "f32" | "f64" => false,
        _ => f.min_inclusive.is_some() || f.max_inclusive.is_some() || f.min_exclusive.is_some() || f.max_exclusive.is_some(),
    }
}

// ---- values of structs ------------------------------------------------------------------------

pub struct Gen<'a> {
    pub m: &'a Model,
    pub structs: BTreeMap<QRef, ExpStruct>,
    pub depth_limit: usize,
    /// when set, the first violable simple-typed leaf met after `violate_at` leaves gets a violation
    pub violate_at: Option<usize>,
    pub leaves_seen: usize,
    pub violated: Option<String>,
}

impl<'a> Gen<'a> {
    pub fn new(m: &'a Model) -> Gen<'a> {
        let structs = expect::structs(m).into_iter().map(|s| (s.q, s)).collect();
        Gen { m, structs, depth_limit: 4, violate_at: None, leaves_seen: 0, violated: None }
    }

    /// facets that apply to values of the simple type `q`: its own and those of all its ancestors
    pub fn effective_facets(&self, q: QRef) -> (String, Vec<Facets>) {
        let mut chain = vec![];
        let mut cur = q;
        for _ in 0..8 {
            match &self.m.comp(cur).kind {
                CompKind::Simple(SimpleKind::Restriction { base, facets }) => {
                    chain.push(facets.clone());
                    match base {
                        TypeRef::Builtin(b) => return (b.clone(), chain),
                        TypeRef::Named(n) => cur = *n,
                    }
                }
                _ => return ("string".into(), chain),
            }
        }
        ("string".into(), chain)
    }

    fn merged(chain: &[Facets]) -> Facets {
        // intersection of all facet sets in the derivation chain
        let mut f = Facets::default();
        for c in chain {
            f.min_inclusive = [f.min_inclusive, c.min_inclusive].into_iter().flatten().max();
            f.min_exclusive = [f.min_exclusive, c.min_exclusive].into_iter().flatten().max();
            f.max_inclusive = [f.max_inclusive, c.max_inclusive].into_iter().flatten().min();
            f.max_exclusive = [f.max_exclusive, c.max_exclusive].into_iter().flatten().min();
            if c.length.is_some() {
                f.length = c.length;
            }
            f.min_length = [f.min_length, c.min_length].into_iter().flatten().max();
            f.max_length = [f.max_length, c.max_length].into_iter().flatten().min();
            if !c.enumeration.is_empty() {
                f.enumeration = if f.enumeration.is_empty() { c.enumeration.clone() } else { f.enumeration.iter().filter(|e| c.enumeration.contains(e)).cloned().collect() };
            }
        }
        f
    }

    /// is there any valid value at all (derived types may narrow to nothing)?
    pub fn satisfiable(&self, q: QRef) -> bool {
        let (b, chain) = self.effective_facets(q);
        let f = Self::merged(&chain);
        // two different length facets along the chain leave nothing
        let lengths: std::collections::BTreeSet<_> = chain.iter().filter_map(|c| c.length).collect();
        if lengths.len() > 1 {
            return false;
        }
        // enumerations along the chain that have no value in common leave nothing
        if f.enumeration.is_empty() && chain.iter().any(|c| !c.enumeration.is_empty()) {
            return false;
        }
        let prim = expect::prim_for(&b);
        match prim {
            "String" => {
                let lo = f.length.or(f.min_length).unwrap_or(0);
                let hi = f.length.or(f.max_length).unwrap_or(255);
                let len_ok = lo <= hi && f.length.is_none_or(|l| f.min_length.is_none_or(|m| m <= l) && f.max_length.is_none_or(|m| m >= l));
                if !f.enumeration.is_empty() {
                    f.enumeration.iter().any(|e| {
                        let n = e.chars().count();
                        n >= lo as usize && n <= hi as usize && !e.is_empty()
                    }) && len_ok
                } else {
                    len_ok && hi >= 1
                }
            }
            "bool" | "f32" | "f64" => true,
            int => {
                // value space of the builtin itself
                let (blo, bhi): (i128, i128) = match (b.as_str(), int) {
                    ("negativeInteger", _) => (i32::MIN as i128, -1),
                    ("nonPositiveInteger", _) => (i32::MIN as i128, 0),
                    ("nonNegativeInteger", _) => (0, i32::MAX as i128),
                    ("positiveInteger", _) => (1, i32::MAX as i128),
                    (_, "i8") => (i8::MIN as i128, i8::MAX as i128),
                    (_, "u8") => (0, u8::MAX as i128),
                    (_, "i16") => (i16::MIN as i128, i16::MAX as i128),
                    (_, "u16") => (0, u16::MAX as i128),
                    (_, "i32") => (i32::MIN as i128, i32::MAX as i128),
                    (_, "u32") => (0, u32::MAX as i128),
                    (_, "i64") => (i64::MIN as i128, i64::MAX as i128),
                    _ => (0, u64::MAX as i128),
                };
                let lo = [Some(blo), f.min_inclusive.map(|v| v as i128), f.min_exclusive.map(|v| v as i128 + 1)].into_iter().flatten().max().unwrap();
                let hi = [Some(bhi), f.max_inclusive.map(|v| v as i128), f.max_exclusive.map(|v| v as i128 - 1)].into_iter().flatten().min().unwrap();
                lo <= hi
            }
        }
    }

    pub fn simple_value(&mut self, q: QRef, t: &mut Tape) -> StructV {
        let (builtin, chain) = self.effective_facets(q);
        let mut f = Self::merged(&chain);
        self.leaves_seen += 1;
        // a derived type is the preferred place for a planted violation (facets inherited through
        // derivation), and half of the time the violated facet is one that only an ancestor declares
        let derived = chain.len() >= 2;
        let mut violate = self.violated.is_none() && self.violate_at.is_some_and(|k| derived || self.leaves_seen > k) && violable(&builtin, &f);
        if violate && derived && t.flag() {
            let ancestors_only = Self::merged(&chain[1..]);
            if violable(&builtin, &ancestors_only) {
                f = ancestors_only;
            }
        }
        if violate && !violable(&builtin, &f) {
            violate = false;
        }
        let mut leaf = if expect::prim_for(&builtin) == "String" {
            // enumerations must also respect the length facets: pick a matching one
            let mut l = leaf_for(&builtin, Some(&f), t, violate);
            if !violate && !f.enumeration.is_empty() {
                let lo = f.length.or(f.min_length).unwrap_or(0) as usize;
                let hi = f.length.or(f.max_length).unwrap_or(255) as usize;
                if let Some(e) = f.enumeration.iter().find(|e| (lo..=hi).contains(&e.chars().count())) {
                    l = Leaf { builtin: builtin.clone(), lexical: e.clone(), rust: format!("{e:?}.to_string()") };
                }
            }
            l
        } else {
            numeric_text_for(&builtin, &f, t, violate)
        };
        // values of simple-type structs may end up in attributes, where yaserde 0.12 escapes the
        // text twice (to_string_content, then the attribute writer): keep XML-special characters out
        if leaf.lexical.contains(['<', '>', '&', '"', '\'']) {
            let safe: String = leaf.lexical.chars().map(|c| if ['<', '>', '&', '"', '\''].contains(&c) { '_' } else { c }).collect();
            leaf = Leaf { builtin: leaf.builtin.clone(), rust: format!("{safe:?}.to_string()"), lexical: safe };
        }
        if violate {
            self.violated = Some(format!("{} := {:?}", self.m.comp(q).name.xml(), leaf.lexical));
        }
        leaf.builtin = builtin;
        // nested value for a derived simple type: { value: Base { value: ... } }
        let inner = match &self.m.comp(q).kind {
            CompKind::Simple(SimpleKind::Restriction { base: TypeRef::Named(b), .. }) => Some(Box::new(self.simple_value_with(*b, &leaf))),
            _ => None,
        };
        StructV { q, body: StructBody::Simple { leaf, inner } }
    }

    fn simple_value_with(&self, q: QRef, leaf: &Leaf) -> StructV {
        let inner = match &self.m.comp(q).kind {
            CompKind::Simple(SimpleKind::Restriction { base: TypeRef::Named(b), .. }) => Some(Box::new(self.simple_value_with(*b, leaf))),
            _ => None,
        };
        StructV { q, body: StructBody::Simple { leaf: leaf.clone(), inner } }
    }

    fn node_for(&mut self, ty: &ExpTy, t: &mut Tape, depth: usize) -> Option<Node> {
        match ty {
            ExpTy::Prim { builtin, .. } => {
                self.leaves_seen += 1;
                Some(Node::Leaf(leaf_for(builtin, None, t, false)))
            }
            ExpTy::Struct(q) => {
                let target = expect::resolve_struct(self.m, *q)?;
                match &self.m.comp(target).kind {
                    CompKind::Simple(_) => Some(Node::Struct(self.simple_value(target, t))),
                    _ => self.struct_value(target, t, depth + 1).map(Node::Struct),
                }
            }
        }
    }

    /// A schema-valid value of the struct for component `q` (complex type / anonymous element).
    pub fn struct_value(&mut self, q: QRef, t: &mut Tape, depth: usize) -> Option<StructV> {
        let es = self.structs.get(&q)?.clone();
        if let StructKind::Simple { .. } = es.kind {
            return Some(self.simple_value(q, t));
        }
        // choice groups: exactly one member of each group is present
        let mut chosen: BTreeMap<usize, usize> = BTreeMap::new();
        let mut groups: BTreeMap<usize, Vec<usize>> = BTreeMap::new();
        for (i, f) in es.fields.iter().enumerate() {
            if let Some(g) = f.choice_group {
                groups.entry(g).or_default().push(i);
            }
        }
        for (g, members) in &groups {
            chosen.insert(*g, members[t.below(members.len())]);
        }
        let mut fields = vec![];
        // optional groups (sequences with minOccurs=0) are all present or, one time in four, all absent
        let groups_absent = t.below(4) == 0;
        for (i, f) in es.fields.iter().enumerate() {
            let deep = depth >= self.depth_limit;
            let count = if f.in_optional_group && groups_absent && f.wrap != Wrap::Bare {
                0
            } else if let Some(g) = f.choice_group {
                if chosen[&g] != i {
                    0
                } else {
                    match f.wrap {
                        Wrap::Vec => 1 + t.below(2),
                        _ => 1,
                    }
                }
            } else if f.attr {
                match f.wrap {
                    Wrap::Bare => 1,
                    _ => t.below(2),
                }
            } else {
                match f.wrap {
                    Wrap::Bare => 1,
                    Wrap::Opt => {
                        if f.required_in_group {
                            1
                        } else if deep {
                            0
                        } else {
                            t.below(2)
                        }
                    }
                    Wrap::Vec => {
                        let lo = usize::from(f.required_in_group);
                        if deep { lo } else { lo + t.below(3) }
                    }
                }
            };
            let mut items = vec![];
            for _ in 0..count {
                match self.node_for(&f.ty, t, depth) {
                    Some(n) => items.push(n),
                    None => {
                        if f.wrap == Wrap::Bare {
                            return None;
                        }
                    }
                }
            }
            if f.wrap == Wrap::Bare && items.len() != 1 {
                return None;
            }
            fields.push(items);
        }
        Some(StructV { q, body: StructBody::Complex(fields) })
    }
}

// ---- rendering: Rust expression ---------------------------------------------------------------

pub struct Layout {
    /// per struct: Rust path and actual field identifiers (parallel to ExpStruct.fields)
    pub paths: BTreeMap<QRef, (String, Vec<String>)>,
}

impl Layout {
    pub fn discover(m: &Model, scan: &Scan) -> Result<Layout, Failure> {
        let mut paths = BTreeMap::new();
        for es in expect::structs(m) {
            let path = struct_path(m, scan, es.q)?;
            let module = path.trim_start_matches("g::").rsplit_once("::").map(|x| x.0.to_string()).unwrap_or_default();
            let found = scan.find_struct(&module, &es.rust);
            if found.len() != 1 {
                return Err(Failure { sig: "struct-missing".into(), detail: format!("{path}"), q: Some(es.q) });
            }
            let mut idents = vec![];
            let mut used = vec![false; found[0].fields.len()];
            for ef in &es.fields {
                let pos = found[0].fields.iter().enumerate().position(|(i, of)| !used[i] && of.ya.rename.as_deref() == Some(ef.xml.as_str()) && of.ya.attribute == ef.attr);
                match pos {
                    Some(i) => {
                        used[i] = true;
                        idents.push(found[0].fields[i].ident.clone());
                    }
                    None => return Err(Failure { sig: "member-missing".into(), detail: format!("{}.{}", es.rust, ef.xml), q: Some(es.q) }),
                }
            }
            paths.insert(es.q, (path, idents));
        }
        Ok(Layout { paths })
    }
}

pub fn rust_expr(g: &Gen, lay: &Layout, v: &StructV) -> String {
    let (path, idents) = &lay.paths[&v.q];
    match &v.body {
        StructBody::Simple { leaf, inner } => match inner {
            Some(i) => format!("{path} {{ value: {} }}", rust_expr(g, lay, i)),
            None => format!("{path} {{ value: {} }}", leaf.rust),
        },
        StructBody::Complex(fields) => {
            let es = &g.structs[&v.q];
            let mut parts = vec![];
            for (i, items) in fields.iter().enumerate() {
                let one = |n: &Node| match n {
                    Node::Leaf(l) => l.rust.clone(),
                    Node::Struct(s) => rust_expr(g, lay, s),
                };
                let e = match es.fields[i].wrap {
                    Wrap::Bare => one(&items[0]),
                    Wrap::Opt => match items.first() {
                        Some(n) => format!("Some({})", one(n)),
                        None => "None".to_string(),
                    },
                    Wrap::Vec => format!("vec![{}]", items.iter().map(one).collect::<Vec<_>>().join(", ")),
                };
                parts.push(format!("{}: {e}", idents[i]));
            }
            format!("{path} {{ {} }}", parts.join(", "))
        }
    }
}

// ---- rendering: expected infoset --------------------------------------------------------------

#[derive(Clone, Debug, PartialEq)]
pub struct XElem {
    pub ns: String,
    pub local: String,
    pub attrs: Vec<(String, String, String)>, // (local name, lexical, builtin) -- unqualified
    pub children: Vec<XElem>,
    pub text: Option<(String, String)>, // (lexical, builtin)
}

pub fn text_of(v: &StructV) -> Option<(String, String)> {
    match &v.body {
        StructBody::Simple { leaf, .. } => Some((leaf.lexical.clone(), leaf.builtin.clone())),
        _ => None,
    }
}

/// element for value `v` placed under the name (ns, local)
pub fn infoset(g: &Gen, v: &StructV, ns: &str, local: &str) -> XElem {
    let mut e = XElem { ns: ns.to_string(), local: local.to_string(), attrs: vec![], children: vec![], text: None };
    match &v.body {
        StructBody::Simple { leaf, .. } => e.text = Some((leaf.lexical.clone(), leaf.builtin.clone())),
        StructBody::Complex(fields) => {
            let es = &g.structs[&v.q];
            for (i, items) in fields.iter().enumerate() {
                let f = &es.fields[i];
                for n in items {
                    if f.attr {
                        let (lex, b) = match n {
                            Node::Leaf(l) => (l.lexical.clone(), l.builtin.clone()),
                            Node::Struct(s) => text_of(s).unwrap_or_default(),
                        };
                        // a reference to xml:lang is the one qualified attribute there is
                        e.attrs.push((if f.xml_lang { "xml:lang".to_string() } else { f.xml.clone() }, lex, b));
                    } else {
                        let mns = &g.m.files[f.ns_file].ns;
                        match n {
                            Node::Leaf(l) => e.children.push(XElem { ns: mns.clone(), local: f.xml.clone(), attrs: vec![], children: vec![], text: Some((l.lexical.clone(), l.builtin.clone())) }),
                            Node::Struct(s) => e.children.push(infoset(g, s, mns, &f.xml)),
                        }
                    }
                }
            }
        }
    }
    e
}

pub fn xml_escape_text(s: &str) -> String {
    s.replace('&', "&amp;").replace('<', "&lt;").replace('>', "&gt;")
}
pub fn xml_escape_attr(s: &str, quote: char) -> String {
    let t = s.replace('&', "&amp;").replace('<', "&lt;").replace('\t', "&#9;").replace('\n', "&#10;");
    if quote == '"' { t.replace('"', "&quot;") } else { t.replace('\'', "&apos;") }
}

/// Surface style of an instance document.
#[derive(Clone, Copy, Debug, PartialEq, Eq, serde::Serialize, serde::Deserialize)]
pub enum Surface {
    /// every namespace gets a fresh prefix (n0, n1, ...) declared on the root
    RootPrefixes,
    /// the root's namespace is the default namespace; others get prefixes declared at first use
    DefaultNs,
    /// each element declares its own namespace as default namespace when it differs from its parent
    LocalDefault,
    /// like RootPrefixes, pretty printed with indentation and single quotes
    Pretty,
}

pub fn render_instance(e: &XElem, surface: Surface) -> String {
    let mut nss: Vec<String> = vec![];
    fn collect(e: &XElem, out: &mut Vec<String>) {
        if !out.contains(&e.ns) {
            out.push(e.ns.clone());
        }
        for c in &e.children {
            collect(c, out);
        }
    }
    collect(e, &mut nss);
    let prefix_of = |ns: &str| format!("n{}", nss.iter().position(|x| x == ns).unwrap_or(0));
    let q = if surface == Surface::Pretty { '\'' } else { '"' };
    fn go(e: &XElem, surface: Surface, parent_default: Option<&str>, declared: &mut Vec<String>, root: bool, nss: &[String], prefix_of: &dyn Fn(&str) -> String, q: char, indent: usize, out: &mut String) {
        let pretty = surface == Surface::Pretty;
        if pretty {
            out.push('\n');
            out.push_str(&"  ".repeat(indent));
        }
        let mut decls = String::new();
        let mut my_default = parent_default.map(str::to_string);
        let mut newly = vec![];
        let name = match surface {
            Surface::RootPrefixes | Surface::Pretty => {
                if root {
                    for ns in nss {
                        decls += &format!(" xmlns:{}={q}{}{q}", prefix_of(ns), xml_escape_attr(ns, q));
                    }
                }
                format!("{}:{}", prefix_of(&e.ns), e.local)
            }
            Surface::DefaultNs => {
                if root {
                    decls += &format!(" xmlns={q}{}{q}", xml_escape_attr(&e.ns, q));
                    my_default = Some(e.ns.clone());
                }
                if my_default.as_deref() == Some(e.ns.as_str()) {
                    e.local.clone()
                } else {
                    if !declared.contains(&e.ns) {
                        decls += &format!(" xmlns:{}={q}{}{q}", prefix_of(&e.ns), xml_escape_attr(&e.ns, q));
                        declared.push(e.ns.clone());
                        newly.push(e.ns.clone());
                    }
                    format!("{}:{}", prefix_of(&e.ns), e.local)
                }
            }
            Surface::LocalDefault => {
                if my_default.as_deref() != Some(e.ns.as_str()) {
                    decls += &format!(" xmlns={q}{}{q}", xml_escape_attr(&e.ns, q));
                    my_default = Some(e.ns.clone());
                }
                e.local.clone()
            }
        };
        out.push('<');
        out.push_str(&name);
        out.push_str(&decls);
        for (n, v, _) in &e.attrs {
            out.push_str(&format!(" {n}={q}{}{q}", xml_escape_attr(v, q)));
        }
        if e.children.is_empty() && e.text.is_none() {
            out.push_str("/>");
        } else {
            out.push('>');
            if let Some((t, _)) = &e.text {
                out.push_str(&xml_escape_text(t));
            }
            for c in &e.children {
                go(c, surface, my_default.as_deref(), declared, false, nss, prefix_of, q, indent + 1, out);
            }
            if pretty && !e.children.is_empty() {
                out.push('\n');
                out.push_str(&"  ".repeat(indent));
            }
            out.push_str(&format!("</{name}>"));
        }
        for n in newly {
            declared.retain(|d| *d != n);
        }
    }
    let mut out = String::from("<?xml version=\"1.0\" encoding=\"UTF-8\"?>");
    let mut declared = vec![];
    go(e, surface, None, &mut declared, true, &nss, &prefix_of, q, 0, &mut out);
    out
}

// ---- comparing a document with the expected infoset ------------------------------------------

fn value_equal(builtin: &str, a: &str, b: &str) -> bool {
    if a == b {
        return true;
    }
    match expect::prim_for(builtin) {
        "bool" => {
            let n = |s: &str| matches!(s.trim(), "true" | "1");
            let valid = |s: &str| matches!(s.trim(), "true" | "1" | "false" | "0");
            valid(a) && valid(b) && n(a) == n(b)
        }
        "f32" | "f64" => match (a.trim().parse::<f64>(), b.trim().parse::<f64>()) {
            (Ok(x), Ok(y)) => x == y,
            _ => false,
        },
        "String" => false,
        _ => match (a.trim().parse::<i128>(), b.trim().parse::<i128>()) {
            (Ok(x), Ok(y)) => x == y,
            _ => false,
        },
    }
}

/// First discrepancy between the parsed document element and the expectation, or None.
/// `check_root_name`: the root's own QName is only asserted where the schema declares one.
pub fn compare(node: roxmltree::Node, want: &XElem, check_root_name: bool, path: &str) -> Option<(String, String)> {
    let here = format!("{path}/{}", want.local);
    if check_root_name {
        let ns = node.tag_name().namespace().unwrap_or("");
        if node.tag_name().name() != want.local {
            return Some(("element-name".into(), format!("{here}: found <{}>", node.tag_name().name())));
        }
        if ns != want.ns {
            return Some(("element-namespace".into(), format!("{here}: namespace {ns:?}, declared {:?}", want.ns)));
        }
    }
    // attributes: unqualified, by declared name
    let mut seen = vec![];
    for a in node.attributes() {
        let in_xml_ns = a.namespace() == Some("http://www.w3.org/XML/1998/namespace");
        if a.namespace().is_some() && !in_xml_ns {
            return Some(("attribute-qualified".into(), format!("{here}: attribute {{{}}}{} carries a namespace", a.namespace().unwrap(), a.name())));
        }
        let a_name = if in_xml_ns { format!("xml:{}", a.name()) } else { a.name().to_string() };
        match want.attrs.iter().find(|(n, _, _)| *n == a_name) {
            None => return Some(("attribute-undeclared".into(), format!("{here}: @{a_name}"))),
            Some((n, lex, b)) => {
                if !value_equal(b, a.value(), lex) {
                    return Some(("attribute-value".into(), format!("{here}/@{n}: {:?} expected {lex:?} ({b})", a.value())));
                }
                seen.push(n.clone());
            }
        }
    }
    for (n, _, _) in &want.attrs {
        if !seen.contains(n) {
            return Some(("attribute-missing".into(), format!("{here}/@{n}")));
        }
    }
    let kids: Vec<roxmltree::Node> = node.children().filter(|c| c.is_element()).collect();
    if let Some((lex, b)) = &want.text {
        if !kids.is_empty() {
            return Some(("unexpected-child-elements-in-simple-content".into(), here));
        }
        let got: String = node.children().filter(|c| c.is_text()).map(|c| c.text().unwrap_or("")).collect();
        if !value_equal(b, &got, lex) {
            return Some((format!("text-value:{}", expect::prim_for(b)), format!("{here}: {got:?} expected {lex:?} ({b})")));
        }
        return None;
    }
    if kids.len() != want.children.len() {
        let names: Vec<&str> = kids.iter().map(|k| k.tag_name().name()).collect();
        let wn: Vec<&str> = want.children.iter().map(|k| k.local.as_str()).collect();
        let kind = if kids.len() < want.children.len() { "child-missing" } else { "child-unexpected" };
        return Some((kind.into(), format!("{here}: children {names:?} expected {wn:?}")));
    }
    for (k, w) in kids.iter().zip(&want.children) {
        if k.tag_name().name() != w.local {
            let names: Vec<&str> = kids.iter().map(|k| k.tag_name().name()).collect();
            let wn: Vec<&str> = want.children.iter().map(|k| k.local.as_str()).collect();
            return Some(("child-order-or-name".into(), format!("{here}: children {names:?} expected {wn:?}")));
        }
        if let Some(d) = compare(*k, w, true, &here) {
            return Some(d);
        }
    }
    // stray non-whitespace text in element-only content
    let stray: String = node.children().filter(|c| c.is_text()).map(|c| c.text().unwrap_or("")).collect();
    if !want.children.is_empty() && !stray.trim().is_empty() {
        return Some(("stray-text".into(), format!("{here}: {stray:?}")));
    }
    None
}
