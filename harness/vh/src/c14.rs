//! C14 — schema-supplied text reaches the output only as data, never as code.
//!
//! (a) exhaustive keyword x spelling x position matrix; (b) proptest-chosen attacker payloads x
//! every position where schema text flows into the output. Oracle: the output parses (syn), the
//! injected identifier never shows up as an identifier token, every string literal carrying the
//! marker evaluates to the original text, and rustc accepts the file.

use crate::common::*;
use crate::expect::{RUST_KEYWORDS, RUST_KEYWORDS_2024};
use crate::model::{esc_attr, esc_text};
use crate::pipeline;
use crate::rustc::Externs;
use crate::worker::{self, Outcome};
use crate::zeep::FileSet;
use proptest::prelude::*;
use proptest::strategy::ValueTree;
use rayon::prelude::*;
use serde_json::json;
use std::collections::BTreeSet;
use std::str::FromStr;

pub const POSITIONS: [&str; 16] = [
    "element-name",
    "attribute-name",
    "complex-type-name",
    "simple-type-name",
    "global-element-name",
    "operation-name",
    "part-name",
    "message-name",
    "enumeration-value",
    "facet-value",
    "documentation",
    "namespace-uri",
    "namespace-uri-last-segment",
    "soap-address",
    "soap-action",
    "service-name",
];

#[derive(Clone, Debug, serde::Serialize, serde::Deserialize)]
pub struct PCase {
    pub position: usize,
    pub payload: String,
}

/// One WSDL (+ nothing else) in which `text` sits at `position`; everything else is harmless.
pub fn render(position: &str, text: &str) -> FileSet {
    let a = esc_attr(text);
    let t = esc_text(text);
    let pick = |p: &str, default: &str| if position == p { a.clone() } else { default.to_string() };
    let ns = if position == "namespace-uri" { a.clone() } else if position == "namespace-uri-last-segment" { format!("http://example.org/c14/{a}") } else { "http://example.org/c14/svc".to_string() };
    let elem = pick("element-name", "item");
    let attr = pick("attribute-name", "code");
    let ctype = pick("complex-type-name", "Holder");
    let stype = pick("simple-type-name", "Colour");
    let gelem = pick("global-element-name", "Request");
    let op = pick("operation-name", "Submit");
    let part = pick("part-name", "body");
    let msg = pick("message-name", "SubmitIn");
    let en = pick("enumeration-value", "red");
    let facet = pick("facet-value", "7");
    let doc = if position == "documentation" { t } else { "plain words".to_string() };
    let addr = pick("soap-address", "http://localhost:8080/c14");
    let action = pick("soap-action", "http://example.org/c14/Submit");
    let svc = pick("service-name", "PayloadService");
    let wsdl = format!(
        r#"<?xml version="1.0" encoding="UTF-8"?>
<wsdl:definitions xmlns:wsdl="http://schemas.xmlsoap.org/wsdl/" xmlns:soap="http://schemas.xmlsoap.org/wsdl/soap/" xmlns:xs="http://www.w3.org/2001/XMLSchema" xmlns:tns="{ns}" targetNamespace="{ns}">
  <wsdl:types>
    <xs:schema targetNamespace="{ns}" elementFormDefault="qualified">
      <xs:simpleType name="{stype}">
        <xs:annotation><xs:documentation>{doc}</xs:documentation></xs:annotation>
        <xs:restriction base="xs:string"><xs:enumeration value="{en}"/><xs:enumeration value="blue"/></xs:restriction>
      </xs:simpleType>
      <xs:simpleType name="Level"><xs:restriction base="xs:int"><xs:minInclusive value="{facet}"/></xs:restriction></xs:simpleType>
      <xs:complexType name="{ctype}">
        <xs:annotation><xs:documentation>{doc}</xs:documentation></xs:annotation>
        <xs:sequence>
          <xs:element name="{elem}" type="xs:string" minOccurs="0"/>
          <xs:element name="level" type="tns:Level" minOccurs="0"/>
        </xs:sequence>
        <xs:attribute name="{attr}" type="xs:string"/>
      </xs:complexType>
      <xs:element name="{gelem}"><xs:complexType><xs:sequence><xs:element name="text" type="xs:string"/></xs:sequence></xs:complexType></xs:element>
      <xs:element name="Response"><xs:complexType><xs:sequence><xs:element name="text" type="xs:string"/></xs:sequence></xs:complexType></xs:element>
    </xs:schema>
  </wsdl:types>
  <wsdl:message name="{msg}"><wsdl:part name="{part}" element="tns:{gelem}"/></wsdl:message>
  <wsdl:message name="SubmitOut"><wsdl:part name="body" element="tns:Response"/></wsdl:message>
  <wsdl:portType name="Port"><wsdl:operation name="{op}"><wsdl:input message="tns:{msg}"/><wsdl:output message="tns:SubmitOut"/></wsdl:operation></wsdl:portType>
  <wsdl:binding name="Binding" type="tns:Port">
    <soap:binding style="document" transport="http://schemas.xmlsoap.org/soap/http"/>
    <wsdl:operation name="{op}"><soap:operation soapAction="{action}"/><wsdl:input><soap:body use="literal" parts="{part}"/></wsdl:input><wsdl:output><soap:body use="literal"/></wsdl:output></wsdl:operation>
  </wsdl:binding>
  <wsdl:service name="{svc}"><wsdl:port name="P" binding="tns:Binding"><soap:address location="{addr}"/></wsdl:port></wsdl:service>
</wsdl:definitions>
"#
    );
    FileSet::single("payload.wsdl", &wsdl)
}

pub struct Fail {
    pub sig: String,
    pub detail: String,
}

fn collect_tokens(ts: proc_macro2::TokenStream, idents: &mut Vec<String>, lits: &mut Vec<String>) {
    for tt in ts {
        match tt {
            proc_macro2::TokenTree::Group(g) => collect_tokens(g.stream(), idents, lits),
            proc_macro2::TokenTree::Ident(i) => idents.push(i.to_string()),
            proc_macro2::TokenTree::Literal(l) => lits.push(l.to_string()),
            proc_macro2::TokenTree::Punct(_) => {}
        }
    }
}

fn lit_value(src: &str) -> Option<String> {
    syn::parse_str::<syn::LitStr>(src).ok().map(|l| l.value())
}

/// Static judgement of an output for a payload with marker `mark` and injected identifier `inj`.
pub fn judge_static(output: &str, position: &str, payload: &str, mark: &str, inj: &str) -> Vec<Fail> {
    let fails = judge_static_inner(output, position, payload, mark, inj);
    // release proc-macro2's per-thread source map (see outscan::scan); no span outlives this call
    proc_macro2::extra::invalidate_current_thread_spans();
    fails
}

fn judge_static_inner(output: &str, position: &str, payload: &str, mark: &str, inj: &str) -> Vec<Fail> {
    let mut fails = vec![];
    if let Err(e) = syn::parse_file(output) {
        fails.push(Fail { sig: format!("output-does-not-parse:{position}"), detail: format!("{e} (line {})", e.span().start().line) });
        return fails;
    }
    let Ok(ts) = proc_macro2::TokenStream::from_str(output) else {
        fails.push(Fail { sig: format!("output-does-not-lex:{position}"), detail: String::new() });
        return fails;
    };
    let (mut idents, mut lits) = (vec![], vec![]);
    collect_tokens(ts, &mut idents, &mut lits);
    if idents.iter().any(|i| i == inj || i.trim_start_matches("r#") == inj) {
        fails.push(Fail { sig: format!("schema-text-became-code:{position}"), detail: format!("identifier {inj} appears as a token") });
    }
    if payload.contains(mark) {
        // every string literal (plain or raw; doc comments are #[doc = "..."] literals) carrying the
        // marker must evaluate to text that contains the payload unchanged
        let want: String = if position == "documentation" { payload.trim().to_string() } else { payload.to_string() };
        for l in &lits {
            if !l.contains(mark) {
                continue;
            }
            let Some(v) = lit_value(l) else { continue };
            let ok = match position {
                // the payload is only the last segment of the URI here
                "namespace-uri-last-segment" => v.contains(&want),
                "soap-address" | "soap-action" | "namespace-uri" => {
                    // URLs may be written normalised (percent-encoded): equal after parsing
                    v.contains(&want)
                        || match (url::Url::parse(&v), url::Url::parse(&want)) {
                            (Ok(a), Ok(b)) => a == b,
                            _ => false,
                        }
                }
                "documentation" => {
                    // a doc line is one line of the payload
                    want.split(['\n', '\r']).any(|line| v.trim() == line.trim()) || v.contains(&want)
                }
                _ => v.contains(&want),
            };
            if !ok {
                fails.push(Fail { sig: format!("literal-does-not-evaluate-to-original-text:{position}"), detail: format!("literal {l} evaluates to {v:?}, payload is {want:?}") });
                break;
            }
        }
    }
    fails
}

pub const DANGERS: [&str; 44] = [
    "\"",
    "\\",
    "\\\"",
    "{",
    "}",
    "{}",
    "{0}",
    "\n",
    "\r",
    "\r\n",
    "\t",
    "*/",
    "/*",
    "//",
    "'",
    "r#",
    "#",
    "é",
    "日本",
    "😀",
    " ",
    "$",
    "::",
    ";",
    ")",
    "]",
    "1",
    "-",
    ".",
    "²",
    "½",
    "٣",
    "①",
    "Ⅷ",
    "\u{301}",
    "ª",
    "\u{200d}",
    "\"; pub fn INJ() {} //",
    "\")] pub struct INJ; #[cfg(any())] #[yaserde(rename = \"",
    "*/ pub fn INJ() {} /*",
    "\n pub fn INJ() {}\n",
    "); } pub fn INJ() { let _ = (",
    "1), ..Default::default() }); fn INJ() {} fn x() { let _ = Rc::new(restrictions::Restrictions { max_inclusive: Some(2",
    "\".to_string(), ]), ..Default::default() }); } fn INJ() { let _ = Some(vec![\"",
];

fn payloads() -> impl Strategy<Value = (String, String)> {
    // (prefix-part, dangerous-part); the marker and the injected identifier are added by the caller
    ("[a-zA-Z]{0,4}", (0usize..DANGERS.len()).prop_map(|i| DANGERS[i].to_string()))
}

pub fn keyword_matrix() -> Vec<(String, String, &'static str)> {
    // (keyword, spelling, position)
    let mut v = vec![];
    let kws: Vec<&str> = RUST_KEYWORDS.iter().chain(RUST_KEYWORDS_2024.iter()).copied().collect();
    let mut seen = BTreeSet::new();
    for k in kws {
        for sp in [k.to_string(), {
            let mut c = k.chars();
            c.next().map(|f| f.to_uppercase().collect::<String>() + c.as_str()).unwrap_or_default()
        }, k.to_uppercase()] {
            if !seen.insert(sp.clone()) {
                continue;
            }
            for pos in ["element-name", "attribute-name", "complex-type-name", "simple-type-name", "global-element-name", "operation-name", "part-name", "message-name", "service-name"] {
                v.push((k.to_string(), sp.clone(), pos));
            }
        }
    }
    v
}

/// zeep + static judgement + rustc for one (position, text)
fn judge_full(ex: &Externs, dir: &std::path::Path, position: &str, text: &str, mark: &str, inj: &str) -> (Vec<Fail>, &'static str) {
    let fs = render(position, text);
    match worker::run_single(&fs) {
        Outcome::Ok { output, .. } => {
            let mut f = judge_static(&output, position, text, mark, inj);
            if f.is_empty() {
                let c = pipeline::compile_output(ex, dir, &output, "");
                // yaserde_derive builds visitor identifiers out of the rename text and panics on
                // characters it cannot put into an identifier (e.g. ½, ²); the emitted file itself
                // is legal Rust in that case, so this is not counted against the generator
                let derive_panic = c.errors.iter().any(|d| d.message.contains("proc-macro derive panicked"));
                if derive_panic {
                    return (f, "accepted-but-yaserde-derive-panics");
                }
                if !c.ok && !c.timed_out {
                    f.push(Fail { sig: format!("output-does-not-compile:{position}:{}", c.errors.first().map(|d| d.normalised()).unwrap_or_default()), detail: c.raw_tail });
                }
            }
            (f, "accepted")
        }
        Outcome::ReadErr { .. } | Outcome::WriteErr { .. } => (vec![], "rejected"),
        o => (vec![Fail { sig: format!("generator-crashed:{}:{position}", o.class()), detail: String::new() }], "crashed"),
    }
}

pub fn run(tier: Tier) -> i32 {
    let findings = Findings::load();
    findings.print_fixed("C14");
    let mut ev = Evidence::new(
        "C14",
        tier,
        "exploration",
        "(a) EXHAUSTIVE matrix: every strict, reserved and edition-2024 Rust keyword x spelling (as is, Capitalised, UPPER) x position (element, attribute, complex type, simple type, global element, operation, message part, message name, service name), one WSDL each; (d) 26 whole names that are not words (_, __, -, ., digits, Self, self, crate, super, r#type, and names such as Self- or S-elf that become a keyword once sanitised) at every name position; (c) 22 number-like facet values (+5, 007, 5.0, 1e3, out-of-range, non-ASCII digits ...); (b) EXHAUSTIVE product of 44 dangerous texts x 16 positions, then every dangerous text in the path, query and fragment of the address and action URLs and in an opaque action URI, and in thorough 6000 further proptest-chosen pairs: payloads (non-ASCII numerics, quotes, backslashes, braces, CR/LF/tab, comment delimiters, '; pub fn INJ() {} //'-style injections for attribute, comment, constructor and function contexts, non-ASCII letters, r#, digits) with a random prefix, a unique marker and a unique injected identifier, placed at each of 16 positions where schema text flows into the output (names, enumeration and facet values, documentation, namespace URI, soap:address, soapAction, service name). Oracle: syn::parse_file succeeds; the injected identifier never occurs as an identifier token; every string literal (doc comments included) that carries the marker evaluates to the original text (URLs: equal after parsing); rustc accepts the file. An input the generator rejects is fine. Non-trivial: payload containing one of \" \\ { } CR LF */ or a keyword; distinct by (position, text).",
    );
    ev.assume("comments are invisible to the token stream, so text that only reaches comments is accepted by construction as long as the file still parses and the injected identifier is no token");
    let ex = match Externs::discover() {
        Ok(e) => e,
        Err(e) => {
            ev.inconclusive = Some(e);
            ev.evaluations = 1;
            return ev.finish();
        }
    };
    let scratch = scratch_dir("c14");
    let mut reported = BTreeSet::new();

    // (a) keyword matrix
    let matrix = keyword_matrix();
    let res: Vec<(Vec<Fail>, &'static str)> = matrix
        .par_iter()
        .enumerate()
        .map(|(i, (_, sp, pos))| {
            let dir = pipeline::case_dir(&scratch, i);
            let r = judge_full(&ex, &dir, pos, sp, "\u{0}", "inj_never");
            let _ = std::fs::remove_dir_all(&dir);
            r
        })
        .collect();
    for (i, (kw, sp, pos)) in matrix.iter().enumerate() {
        ev.case(&format!("kw|{pos}|{sp}"), true);
        ev.class(&format!("matrix.{}", res[i].1));
        if i == 0 {
            ev.sample(json!({"keyword": kw, "spelling": sp, "position": pos}));
        }
        for f in &res[i].0 {
            // cluster by position and failure kind, not by keyword
            let sig = format!("C14 keyword:{}", f.sig);
            if !reported.insert(sig.clone()) {
                ev.class("further-failing-keywords");
                continue;
            }
            route_failure(&mut ev, &findings, "keyword-not-usable", &sig, json!({"position": pos, "text": sp, "detail": f.detail}));
        }
    }
    ev.extra.insert("keyword_matrix_cases".into(), json!(matrix.len()));
    ev.exhaustive = Some(true);

    // (b) payloads
    // every dangerous text at every position once (with a generated prefix), then random pairs
    let product = DANGERS.len() * POSITIONS.len();
    let n = product + tier.pick(0, 6000);
    let mut runner = crate::common::runner("C14");
    let strat = (0usize..POSITIONS.len(), payloads());
    let mut cases: Vec<(usize, String, String, String)> = vec![];
    for k in 0..n {
        let (pos, (pre, danger)) = strat.new_tree(&mut runner).unwrap().current();
        let (pos, danger) = if k < product {
            (k % POSITIONS.len(), DANGERS[k / POSITIONS.len()].to_string())
        } else {
            // all positions get each kind of payload over time; rotate so every position is hit evenly
            ((pos + k) % POSITIONS.len(), danger)
        };
        let mark = format!("MK{k:05}x");
        let inj = format!("inj_{k:05}");
        // the dangerous part sits between the marker and a short tail (a bare CR, say, differs from
        // CR LF only when something follows it); the random pairs alternate with and without tail
        let tail = if k < product || k % 2 == 0 { "q" } else { "" };
        let mut text = format!("{pre}{mark}{}{tail}", danger.replace("INJ", &inj));
        // addresses and actions have to be URLs to be accepted at all: the payload rides in the path
        // or in the query
        if POSITIONS[pos] == "soap-address" || POSITIONS[pos] == "soap-action" {
            // in the product the shape follows the dangerous text's index, so that it does not depend
            // on the position's index; all shapes for every dangerous text follow below
            let shape = if k < product { k / POSITIONS.len() } else { k };
            text = if shape % 2 == 0 { format!("http://localhost:8080/c14/{text}") } else { format!("http://localhost:8080/c14?q={text}") };
        }
        cases.push((pos, text, mark, inj));
    }
    // URL-valued positions: every dangerous text in every part of a URL (path, query, fragment) and,
    // for the action, in an opaque URI
    let mut k = n;
    for (pi, pname) in POSITIONS.iter().enumerate().filter(|(_, p)| **p == "soap-address" || **p == "soap-action") {
        for d in DANGERS {
            for shape in 0..4 {
                if shape == 3 && *pname == "soap-address" {
                    continue;
                }
                let mark = format!("MK{k:05}x");
                let inj = format!("inj_{k:05}");
                let t = format!("{mark}{}q", d.replace("INJ", &inj));
                let text = match shape {
                    0 => format!("http://localhost:8080/c14/{t}"),
                    1 => format!("http://localhost:8080/c14?q={t}"),
                    2 => format!("http://localhost:8080/c14#{t}"),
                    _ => format!("urn:c14:{t}"),
                };
                cases.push((pi, text, mark, inj));
                k += 1;
            }
        }
    }
    let res: Vec<(Vec<Fail>, &'static str)> = cases
        .par_iter()
        .enumerate()
        .map(|(i, (pos, text, mark, inj))| {
            let dir = pipeline::case_dir(&scratch, 100_000 + i);
            let r = judge_full(&ex, &dir, POSITIONS[*pos], text, mark, inj);
            let _ = std::fs::remove_dir_all(&dir);
            r
        })
        .collect();
    for (i, (pos, text, _mark, _inj)) in cases.iter().enumerate() {
        let nt = ["\"", "\\", "{", "}", "\n", "\r", "*/"].iter().any(|d| text.contains(d));
        ev.case(&format!("{pos}|{text}"), nt);
        ev.class(&format!("payload.{}.{}", POSITIONS[*pos], res[i].1));
        if i < 3 {
            ev.sample(json!({"position": POSITIONS[*pos], "payload": text}));
        }
        for f in &res[i].0 {
            let sig = format!("C14 payload:{}", f.sig);
            if !reported.insert(sig.clone()) {
                ev.class("further-failing-payloads");
                continue;
            }
            route_failure(&mut ev, &findings, "schema-text-not-data", &sig, json!({"position": POSITIONS[*pos], "text": text, "detail": f.detail, "mark": cases[i].2, "inj": cases[i].3}));
        }
    }
    // (c) facet values that look like numbers (no marker: a marker would make them non-numeric)
    let numeric: [&str; 22] = ["+5", "-5", "007", " 5 ", "5.0", "1e3", "-0", "+0", "0x10", "5_000", "5i64", "٣", "2147483647", "2147483648", "-2147483649", "--5", "+-5", "5 ", "\t5", "1,5", "５", "+"];
    let mut ncases: Vec<(usize, String)> = vec![];
    for v in numeric {
        ncases.push((9, v.to_string())); // facet-value (minInclusive)
    }
    let nres: Vec<(Vec<Fail>, &'static str)> = ncases
        .par_iter()
        .enumerate()
        .map(|(i, (pos, text))| {
            let dir = pipeline::case_dir(&scratch, 200_000 + i);
            let r = judge_full(&ex, &dir, POSITIONS[*pos], text, "\u{0}", "inj_never");
            let _ = std::fs::remove_dir_all(&dir);
            r
        })
        .collect();
    for (i, (pos, text)) in ncases.iter().enumerate() {
        ev.case(&format!("num|{pos}|{text}"), true);
        ev.class(&format!("numeric-facet.{}", nres[i].1));
        for f in &nres[i].0 {
            let sig = format!("C14 numeric-facet:{}", f.sig);
            if !reported.insert(sig.clone()) {
                continue;
            }
            route_failure(&mut ev, &findings, "schema-text-not-data", &sig, json!({"position": POSITIONS[*pos], "text": text, "detail": f.detail}));
        }
    }
    // (d) whole names that are not words: punctuation-only, digits-only, path keywords, raw-looking
    let odd: [&str; 26] = [
        "_", "__", "-", ".", "_1", "1", "1a", "é", "Self", "self", "crate", "super", "r#type", "a b", "a--b", "_type",
        // names that only become a keyword once the characters an identifier cannot hold are gone
        "Self-", "-Self", "S-elf", "Self.", "self-", "s.elf", "cr-ate", "-super", "ty-pe", "f.n",
    ];
    let mut ocases: Vec<(usize, String)> = vec![];
    for v in odd {
        for (pi, p) in POSITIONS.iter().enumerate() {
            if p.ends_with("-name") {
                ocases.push((pi, v.to_string()));
            }
        }
    }
    let ores: Vec<(Vec<Fail>, &'static str)> = ocases
        .par_iter()
        .enumerate()
        .map(|(i, (pos, text))| {
            let dir = pipeline::case_dir(&scratch, 300_000 + i);
            let r = judge_full(&ex, &dir, POSITIONS[*pos], text, "\u{0}", "inj_never");
            let _ = std::fs::remove_dir_all(&dir);
            r
        })
        .collect();
    for (i, (pos, text)) in ocases.iter().enumerate() {
        ev.case(&format!("odd|{pos}|{text}"), true);
        ev.class(&format!("odd-name.{}", ores[i].1));
        for f in &ores[i].0 {
            let sig = format!("C14 odd-name:{}", f.sig);
            if !reported.insert(sig.clone()) {
                ev.class("further-failing-odd-names");
                continue;
            }
            route_failure(&mut ev, &findings, "schema-text-not-data", &sig, json!({"position": POSITIONS[*pos], "text": text, "detail": f.detail}));
        }
    }
    let _ = std::fs::remove_dir_all(&scratch);
    ev.finish()
}

pub fn replay(case: &serde_json::Value) -> i32 {
    let ex = Externs::discover().expect("externs");
    let scratch = scratch_dir("c14r");
    let pos = case["position"].as_str().expect("position");
    let text = case["text"].as_str().expect("text");
    let mark = case["mark"].as_str().unwrap_or("\u{0}");
    let inj = case["inj"].as_str().unwrap_or("inj_never");
    let dir = pipeline::case_dir(&scratch, 0);
    let (fails, outcome) = judge_full(&ex, &dir, pos, text, mark, inj);
    let _ = std::fs::remove_dir_all(&scratch);
    println!("generator: {outcome}");
    for f in &fails {
        println!("{}: {}", f.sig, f.detail);
    }
    if fails.is_empty() {
        0
    } else {
        println!("VIOLATION property=C14 replay=(this file)");
        1
    }
}
