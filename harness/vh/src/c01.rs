//! C01 — emitted Rust compiles against the documented dependencies only.

use crate::common::*;
use crate::sgen::{Profile, RawModel};
use crate::pipeline::{self, Case};
use crate::rustc::{Compile, Externs};
use crate::worker::Outcome;
use serde_json::json;

pub fn profile_for(findings: &Findings, prop: &str) -> (Profile, Vec<String>) {
    let mut p = Profile::full();
    let mut masked = vec![];
    for f in &findings.findings {
        if f.status == "open" && f.properties.iter().any(|x| x == prop) {
            for g in &f.gates {
                if p.mask(g) && !masked.contains(g) {
                    masked.push(g.clone());
                }
            }
        }
    }
    (p, masked)
}

pub fn compile_signature(c: &Compile) -> String {
    if c.timed_out {
        return "rustc-timeout".into();
    }
    match c.errors.first() {
        Some(d) => format!("uncompilable:{}", d.normalised()),
        None => format!("uncompilable:no-diagnostic:{}", c.raw_tail.chars().take(60).collect::<String>()),
    }
}

fn nontrivial(case: &Case) -> bool {
    case.model.files.len() >= 2 || case.model.wsdl.is_some() || case.stats.features.iter().any(|f| f.starts_with("type.cross") || f == "extension" || f == "particle.ref")
}

/// Judge one case end to end (used for shrinking and replay). None = fine.
pub fn judge_one(ex: &Externs, scratch: &std::path::Path, raw: &RawModel, profile: &Profile) -> Option<String> {
    let case = pipeline::make_case(raw.clone(), profile);
    let out = crate::worker::run_single(&case.files);
    match &out {
        Outcome::Ok { output, .. } => {
            let dir = pipeline::case_dir(scratch, 999_999);
            let c = pipeline::compile_output(ex, &dir, output, "");
            let _ = std::fs::remove_dir_all(&dir);
            if c.ok { None } else { Some(compile_signature(&c)) }
        }
        Outcome::ReadErr { .. } | Outcome::WriteErr { .. } => None, // "that the generator accepts"
        o => Some(format!("generator-crashed:{}", o.class())),
    }
}

pub fn run(tier: Tier) -> i32 {
    let findings = Findings::load();
    findings.print_fixed("C01");
    let mut ev = Evidence::new(
        "C01",
        tier,
        "exploration",
        "schema sets from the supported-subset grammar (DESIGN.md section 2), compile profile: 1-4 files in an import DAG, all component kinds, every occurrence combination, nested sequences, choices, extensions (cross-file), element refs, derived simple types, list/union, attributes, documentation, canonical names in six case styles plus keyword member names and std-colliding type names, default-namespace and re-used prefixes, forward references, and WSDLs with 1-5 operations (headers, one-way, body with/without parts=); plus every schema/WSDL of the repository. zeep runs in a worker; an accepted output is type-checked by rustc (edition 2024, --emit=metadata) as a module of a crate that links exactly yaserde, yaserde_derive, xml-rs, log, reqwest, tokio. Oracle: rustc exit status. Non-trivial: >= 2 namespaces, or a WSDL, or a cross reference (cross-namespace type, extension, element ref); distinct by the rendered file set.",
    );
    ev.assume("dependency artifacts are those built by /verif/harness/gendeps from the repository's Cargo.lock; rustc is the toolchain on PATH");
    let ex = match Externs::discover() {
        Ok(e) => e,
        Err(e) => {
            ev.inconclusive = Some(e);
            ev.evaluations = 1;
            return ev.finish();
        }
    };
    let (profile, gates) = profile_for(&findings, "C01");
    ev.extra.insert("gates_masked".into(), json!(gates));
    let scratch = scratch_dir("c01");

    let n = tier.pick(300, 5000);
    let (cases, mut trees) = pipeline::generate(n, "C01", &profile);
    let outs = pipeline::emit_all(&cases);
    let comps = pipeline::compile_all(&ex, &scratch, &outs, &|_| String::new());

    let mut reported = std::collections::BTreeSet::new();
    let mut rejected = 0usize;
    for i in 0..cases.len() {
        let case = &cases[i];
        ev.case(&format!("{:?}", case.files), nontrivial(case));
        pipeline::count_features(&mut ev, &case.stats);
        if i < 2 {
            ev.sample(json!({"files": case.files.files.iter().map(|f| (f.0.clone(), f.1.chars().take(600).collect::<String>())).collect::<Vec<_>>(), "features": case.stats.features}));
        }
        let sig = match (&outs[i], &comps[i]) {
            (Outcome::Ok { .. }, Some(c)) if c.ok => {
                ev.class("outcome.compiles");
                continue;
            }
            (Outcome::Ok { .. }, Some(c)) => compile_signature(c),
            (Outcome::ReadErr { .. } | Outcome::WriteErr { .. }, _) => {
                rejected += 1;
                ev.class("outcome.rejected-by-generator");
                continue;
            }
            (o, _) => format!("generator-crashed:{}", o.class()),
        };
        ev.class("outcome.fails");
        let sig = format!("C01 {sig}");
        if !reported.insert(sig.clone()) {
            ev.class("further-failing-cases");
            continue;
        }
        let want = sig.clone();
        let small = shrink(&mut trees[i], |r| judge_one(&ex, &scratch, r, &profile).is_some_and(|s| format!("C01 {s}") == want), tier.pick(24, 80));
        let small_case = pipeline::make_case(small.clone(), &profile);
        route_failure(&mut ev, &findings, "uncompilable-output", &sig, json!({"raw": small, "profile": profile, "files": small_case.files, "features": small_case.stats.features}));
    }
    ev.extra.insert("rejected_by_generator".into(), json!(rejected));
    if rejected * 10 > cases.len() {
        ev.inconclusive = Some(format!("{rejected} of {} in-subset inputs were rejected by the generator (> 10 %): the generator profile is broken", cases.len()));
    }

    // repository inputs: they are not known to lie inside the supported subset, so they serve as a
    // regression corpus: an input listed as compiling in the committed baseline must still compile
    let baseline: std::collections::BTreeMap<String, bool> = std::fs::read_to_string(std::path::Path::new(VERIF).join("findings/c01_repo_baseline.json"))
        .ok()
        .and_then(|t| serde_json::from_str(&t).ok())
        .unwrap_or_default();
    let repo: Vec<(String, crate::zeep::FileSet)> = crate::zeep::repo_corpus().into_iter().filter(|(_, fs)| tier == Tier::Thorough || fs.total_len() < 300_000).collect();
    let sets: Vec<crate::zeep::FileSet> = repo.iter().map(|r| r.1.clone()).collect();
    let routs = crate::worker::run_all(&sets, 16);
    let rcomps = pipeline::compile_all(&ex, &scratch, &routs, &|_| String::new());
    let mut now: std::collections::BTreeMap<String, bool> = Default::default();
    for (i, (label, fs)) in repo.iter().enumerate() {
        ev.case(&format!("{fs:?}"), true);
        ev.class("input.repository");
        let compiles = matches!((&routs[i], &rcomps[i]), (Outcome::Ok { .. }, Some(c)) if c.ok);
        now.insert(label.clone(), compiles);
        if compiles {
            ev.class("outcome.compiles");
        } else if baseline.get(label) == Some(&true) {
            let why = match (&routs[i], &rcomps[i]) {
                (Outcome::Ok { .. }, Some(c)) => compile_signature(c),
                (o, _) => format!("generator:{}", o.class()),
            };
            let sig = format!("C01 repo-regression:{label}:{why}");
            if reported.insert(sig.clone()) {
                route_failure(&mut ev, &findings, "uncompilable-output", &sig, json!({"repo": label}));
            }
        } else {
            ev.class("repository-input.not-compiling-in-baseline-either");
        }
    }
    if std::env::var_os("VH_WRITE_BASELINE").is_some() {
        let _ = std::fs::create_dir_all(std::path::Path::new(VERIF).join("findings"));
        std::fs::write(std::path::Path::new(VERIF).join("findings/c01_repo_baseline.json"), serde_json::to_string_pretty(&now).unwrap()).unwrap();
    }

    // fixed edge inputs inside the subset whose values sit at the borders of what the emitted code's
    // types can hold: if the generator accepts them the output has to compile
    let edges = edge_inputs();
    let esets: Vec<crate::zeep::FileSet> = edges.iter().map(|e| e.1.clone()).collect();
    let eouts = crate::worker::run_all(&esets, 4);
    let ecomps = pipeline::compile_all(&ex, &scratch, &eouts, &|_| String::new());
    for (i, (label, fs)) in edges.iter().enumerate() {
        ev.case(&format!("{fs:?}"), true);
        ev.class("input.edge");
        if let (Outcome::Ok { .. }, Some(c)) = (&eouts[i], &ecomps[i]) {
            if !c.ok && !c.timed_out {
                let sig = format!("C01 edge:{label}:{}", compile_signature(c));
                if reported.insert(sig.clone()) {
                    route_failure(&mut ev, &findings, "uncompilable-output", &sig, json!({"fileset": fs, "expect_structs": []}));
                }
            }
        }
    }

    // open findings of this property: replay the stored input with the gate open
    replay_open_findings(&mut ev, &findings, "C01", &|raw, prof| judge_one(&ex, &scratch, raw, prof).map(|s| format!("C01 {s}")));
    let _ = std::fs::remove_dir_all(&scratch);
    ev.finish()
}

/// For each open finding of `prop` with a stored repro (raw model + profile), re-judge it.
/// Same signature => KNOWN-FINDING line; a different failure => VIOLATION; no failure => silent.
pub fn replay_open_findings(ev: &mut Evidence, findings: &Findings, prop: &str, judge: &dyn Fn(&RawModel, &Profile) -> Option<String>) {
    for f in findings.findings.iter().filter(|f| f.status == "open" && f.properties.iter().any(|p| p == prop)) {
        let Some(repro) = &f.repro else { continue };
        // the stored signature belongs to one check; other properties only mask the gate
        if !f.signatures.iter().any(|s| s.starts_with(&format!("{prop} "))) {
            continue;
        }
        let path = std::path::Path::new(VERIF).join(repro);
        let Ok(text) = std::fs::read_to_string(&path) else { continue };
        let Ok(v) = serde_json::from_str::<serde_json::Value>(&text) else { continue };
        let case = if v["case"].is_object() { &v["case"] } else { &v };
        // hand-written repro: a file set plus the struct names the output has to define
        if case["fileset"].is_object() && case["expect_structs"].is_array() {
            ev.class("known-finding-replays");
            let fs: crate::zeep::FileSet = serde_json::from_value(case["fileset"].clone()).expect("fileset");
            let want: Vec<String> = case["expect_structs"].as_array().unwrap().iter().filter_map(|x| x.as_str().map(str::to_string)).collect();
            let sig = match crate::worker::run_single(&fs) {
                Outcome::Ok { output, .. } => {
                    let have = crate::c11::struct_names(&output);
                    let missing: Vec<&String> = want.iter().filter(|w| !have.contains(w)).collect();
                    if missing.is_empty() { None } else { Some(format!("{prop} missing-structs:{}", missing.iter().map(|s| s.as_str()).collect::<Vec<_>>().join(","))) }
                }
                o => Some(format!("{prop} generator:{}", o.class())),
            };
            match sig {
                Some(sig) if f.signatures.iter().any(|s| *s == sig) => ev.known_finding(f),
                Some(sig) => {
                    ev.violation("known-finding-repro-fails-differently", &sig, json!({"finding": f.id, "fileset": fs, "expect_structs": want}));
                }
                None => ev.class("known-finding-no-longer-reproduces"),
            }
            continue;
        }
        let (Ok(raw), Ok(profile)) = (serde_json::from_value::<RawModel>(case["raw"].clone()), serde_json::from_value::<Profile>(case["profile"].clone())) else { continue };
        ev.class("known-finding-replays");
        match judge(&raw, &profile) {
            Some(sig) if f.signatures.iter().any(|s| *s == sig) => ev.known_finding(f),
            Some(sig) => {
                ev.violation("known-finding-repro-fails-differently", &sig, json!({"finding": f.id, "raw": raw, "profile": profile}));
            }
            None => ev.class("known-finding-no-longer-reproduces"),
        }
    }
}

pub fn replay(case: &serde_json::Value) -> i32 {
    let ex = Externs::discover().expect("externs");
    let scratch = scratch_dir("c01r");
    let r = if case["raw"].is_object() {
        let raw: RawModel = serde_json::from_value(case["raw"].clone()).expect("raw model");
        let profile: Profile = serde_json::from_value(case["profile"].clone()).expect("profile");
        judge_one(&ex, &scratch, &raw, &profile)
    } else {
        let l = case["repo"].as_str().expect("repo label");
        let fs = crate::zeep::repo_corpus().into_iter().find(|(x, _)| x == l).expect("corpus entry").1;
        match crate::worker::run_single(&fs) {
            Outcome::Ok { output, .. } => {
                let dir = pipeline::case_dir(&scratch, 0);
                let c = pipeline::compile_output(&ex, &dir, &output, "");
                if c.ok { None } else { Some(compile_signature(&c)) }
            }
            _ => None,
        }
    };
    let _ = std::fs::remove_dir_all(&scratch);
    println!("-> {r:?}");
    if r.is_some() {
        println!("VIOLATION property=C01 replay=(this file)");
        1
    } else {
        0
    }
}

/// `vh show <replay.json>`: emit + compile the stored case and print every rustc error with the
/// offending line of the output (triage helper).
pub fn show(file: &str) -> i32 {
    let v: serde_json::Value = serde_json::from_str(&std::fs::read_to_string(file).expect("read")).expect("json");
    let case = &v["case"];
    let fs: crate::zeep::FileSet = if case["raw"].is_object() {
        let raw: RawModel = serde_json::from_value(case["raw"].clone()).expect("raw");
        let profile: Profile = serde_json::from_value(case["profile"].clone()).unwrap_or_else(|_| Profile::full());
        pipeline::make_case(raw, &profile).files
    } else if case["files"].is_object() {
        serde_json::from_value(case["files"].clone()).expect("files")
    } else {
        serde_json::from_value(case["fileset"].clone()).expect("fileset")
    };
    for (n, c) in &fs.files {
        println!("---- {n}\n{c}");
    }
    let ex = Externs::discover().expect("externs");
    let scratch = scratch_dir("show");
    match crate::worker::run_single(&fs) {
        Outcome::Ok { output, .. } => {
            let dir = pipeline::case_dir(&scratch, 0);
            let c = pipeline::compile_output(&ex, &dir, &output, "");
            let lines: Vec<&str> = output.lines().collect();
            if std::env::var_os("VH_FULL").is_some() {
                for (i, l) in lines.iter().enumerate() {
                    println!("{:5} {l}", i + 1);
                }
            }
            println!("==== rustc ok={} errors={}", c.ok, c.errors.len());
            for d in c.errors.iter().take(12) {
                let sp = d.primary();
                println!("{:?} {} @ {:?}", d.code, d.message, sp.map(|s| (s.file_name.clone(), s.line_start)));
                if let Some(s) = sp {
                    if s.file_name.ends_with("out.rs") {
                        for k in s.line_start.saturating_sub(3)..(s.line_start + 1).min(lines.len()) {
                            println!("    {:5} {}", k + 1, lines[k]);
                        }
                    }
                }
            }
        }
        o => println!("generator outcome: {o:?}"),
    }
    let _ = std::fs::remove_dir_all(&scratch);
    0
}

/// Small hand-written schemas whose facet values and occurrence bounds lie at or beyond the limits of
/// the integer types the emitted code uses.
fn edge_inputs() -> Vec<(String, crate::zeep::FileSet)> {
    let mut v = vec![];
    let facet = |base: &str, facet: &str, value: &str| {
        format!(
            "<xs:simpleType name=\"T{}{}{}\"><xs:restriction base=\"xs:{base}\"><xs:{facet} value=\"{value}\"/></xs:restriction></xs:simpleType>",
            base, facet, value.replace('-', "m")
        )
    };
    let mut types = String::new();
    for (base, values) in [
        ("long", vec!["2147483647", "2147483648", "-2147483649", "9999999999", "9223372036854775807", "-9223372036854775808"]),
        ("unsignedInt", vec!["4294967295", "4294967296"]),
        ("unsignedLong", vec!["18446744073709551615", "18446744073709551616"]),
        ("integer", vec!["99999999999999999999999999", "-99999999999999999999999999"]),
    ] {
        for value in values {
            for f in ["minInclusive", "maxInclusive", "minExclusive", "maxExclusive"] {
                types += &facet(base, f, value);
            }
        }
    }
    for l in ["4294967296", "18446744073709551616", "99999999999999999999"] {
        types += &format!("<xs:simpleType name=\"L{l}\"><xs:restriction base=\"xs:string\"><xs:maxLength value=\"{l}\"/><xs:minLength value=\"{l}\"/><xs:length value=\"{l}\"/></xs:restriction></xs:simpleType>");
    }
    v.push((
        "facet-bounds-beyond-32-and-64-bits".to_string(),
        crate::zeep::FileSet::single("edge.xsd", &format!("<xs:schema xmlns:xs=\"http://www.w3.org/2001/XMLSchema\" xmlns:t=\"urn:edge\" targetNamespace=\"urn:edge\" elementFormDefault=\"qualified\">{types}</xs:schema>")),
    ));
    let occ: String = ["4294967295", "4294967296", "18446744073709551615", "18446744073709551616", "99999999999999999999999"]
        .iter()
        .enumerate()
        .map(|(i, n)| format!("<xs:element name=\"e{i}\" type=\"xs:string\" minOccurs=\"0\" maxOccurs=\"{n}\"/>"))
        .collect();
    v.push((
        "occurrence-bounds-beyond-32-and-64-bits".to_string(),
        crate::zeep::FileSet::single("occ.xsd", &format!("<xs:schema xmlns:xs=\"http://www.w3.org/2001/XMLSchema\" xmlns:t=\"urn:edge\" targetNamespace=\"urn:edge\" elementFormDefault=\"qualified\"><xs:complexType name=\"Many\"><xs:sequence>{occ}</xs:sequence></xs:complexType></xs:schema>")),
    ));
    v
}
