//! Wire-level engine shared by C03 (serialized documents), C04 (deserialization / round trip)
//! and C07 (restriction verdicts): model + choice tape -> values -> driver -> judgement.

use crate::c01::profile_for;
use crate::c02::Failure;
use crate::common::*;
use crate::drv::{self, Answer, Built, Probe};
use crate::expect::{self, StructKind};
use crate::model::{CompKind, Model, QRef};
use crate::outscan;
use crate::pipeline::{self, Case};
use crate::rustc::Externs;
use crate::sgen::{self, Profile, RawModel};
use crate::values::{self, Gen, Layout, StructV, Surface, Tape, XElem};
use crate::worker::Outcome;
use proptest::prelude::*;
use proptest::strategy::ValueTree;
use rayon::prelude::*;
use serde_json::json;
use std::collections::BTreeSet;
use std::path::Path;

#[derive(Clone, Debug, serde::Serialize, serde::Deserialize)]
pub struct WireCase {
    pub raw: RawModel,
    pub tape: Vec<u16>,
}

#[derive(Clone, Copy, PartialEq, Eq, Debug)]
pub enum Mode {
    /// C03: serialize values, validate the documents
    Ser,
    /// C04: deserialize instance documents, compare, re-serialize, fixpoint
    Roundtrip,
    /// C07 oracle A: check_restrictions verdicts with planted violations
    Restrict,
}

pub fn arb_case(max_files: usize) -> impl Strategy<Value = WireCase> {
    (sgen::arb_raw(max_files), proptest::collection::vec(any::<u16>(), 48..160)).prop_map(|(raw, tape)| WireCase { raw, tape })
}

pub struct Sample {
    pub root: QRef,
    pub value: StructV,
    pub want: XElem,
    pub check_root_name: bool,
    pub violated: Option<String>,
}

/// roots = every complex type and anonymous-typed global element (bounded per case)
pub fn samples(m: &Model, tape: &[u16], per_root: usize, max_roots: usize, plant_violations: bool) -> Vec<Sample> {
    let mut t = Tape { data: tape, pos: 0 };
    let mut out = vec![];
    let structs = expect::structs(m);
    let roots: Vec<&expect::ExpStruct> = structs.iter().filter(|s| matches!(s.kind, StructKind::Complex)).collect();
    // rotate so that different cases exercise different roots when there are many
    let start = if roots.is_empty() { 0 } else { t.below(roots.len()) };
    for k in 0..roots.len().min(max_roots) {
        let es = roots[(start + k) % roots.len()];
        for s in 0..per_root {
            let mut g = Gen::new(m);
            if plant_violations && s % 2 == 1 {
                g.violate_at = Some(t.below(6));
            }
            // every simple type reachable must have a value at all
            let Some(v) = g.struct_value(es.q, &mut t, 0) else { continue };
            let c = m.comp(es.q);
            let want = values::infoset(&g, &v, &m.files[es.q.file].ns, &c.name.xml());
            out.push(Sample { root: es.q, value: v, want, check_root_name: matches!(c.kind, CompKind::ElementAnon(_)), violated: g.violated.clone() });
        }
    }
    out
}

pub fn unsatisfiable(m: &Model) -> bool {
    // a derived simple type whose facets contradict its ancestors' has no valid value; such models
    // are legal schemas but useless for value generation
    let g = Gen::new(m);
    expect::structs(m).iter().any(|s| matches!(s.kind, StructKind::Simple { .. }) && !g.satisfiable(s.q))
}

pub fn error_class_pub(msg: &str) -> String {
    error_class(msg)
}

/// yaserde error text with the names taken out
fn error_class(msg: &str) -> String {
    if msg.starts_with("bad namespace for ") {
        return "bad namespace for _".into();
    }
    if let Some(i) = msg.find(" is a required field of ") {
        let _ = i;
        return "_ is a required field of _".into();
    }
    msg.chars().map(|c| if c.is_ascii_digit() { '#' } else { c }).take(50).collect()
}

fn doc_failure(kind: &str, text: &str, want: &XElem, check_root: bool) -> Option<(String, String)> {
    let doc = match roxmltree::Document::parse(text) {
        Ok(d) => d,
        Err(e) => {
            let class = format!("{e}");
            let class: String = class.split(" at ").next().unwrap_or("").chars().take(50).collect();
            return Some((format!("{kind}:not-namespace-well-formed:{class}"), text.chars().take(300).collect()));
        }
    };
    values::compare(doc.root_element(), want, check_root, "").map(|(k, d)| (format!("{kind}:{k}"), d))
}

/// Judge one case in the given mode.
pub fn judge(ex: &Externs, dir: &Path, wc: &WireCase, profile: &Profile, mode: Mode) -> (Vec<Failure>, usize, Vec<String>) {
    let case = pipeline::make_case(wc.raw.clone(), profile);
    let out = crate::worker::run_single(&case.files);
    judge_emitted(ex, dir, &case, &out, &wc.tape, mode)
}

pub fn judge_emitted(ex: &Externs, dir: &Path, case: &Case, out: &Outcome, tape: &[u16], mode: Mode) -> (Vec<Failure>, usize, Vec<String>) {
    let mut notes = vec![];
    let text = match out {
        Outcome::Ok { output, .. } => output,
        Outcome::ReadErr { msg, .. } | Outcome::WriteErr { msg, .. } => {
            let class: String = msg.split(':').take(2).collect::<Vec<_>>().join(":").chars().take(60).collect();
            return (vec![Failure { sig: format!("rejected:{class}"), detail: msg.clone(), q: None }], 0, notes);
        }
        o => return (vec![Failure { sig: format!("generator-crashed:{}", o.class()), detail: String::new(), q: None }], 0, notes),
    };
    if unsatisfiable(&case.model) {
        notes.push("skipped:unsatisfiable-simple-type".into());
        return (vec![], 0, notes);
    }
    let scan = match outscan::scan(text) {
        Ok(s) => s,
        Err(e) => return (vec![Failure { sig: "uncompilable-output:does-not-parse".into(), detail: e, q: None }], 0, notes),
    };
    let lay = match Layout::discover(&case.model, &scan) {
        Ok(l) => l,
        Err(f) => return (vec![Failure { sig: format!("struct-layout:{}", f.sig), detail: f.detail, q: f.q }], 0, notes),
    };
    let samples = samples(&case.model, tape, 3, 5, mode == Mode::Restrict);
    if samples.is_empty() {
        notes.push("skipped:no-complex-root".into());
        return (vec![], 0, notes);
    }
    let g = Gen::new(&case.model);
    // probes
    let mut probes: Vec<Probe> = vec![];
    let mut index: Vec<(usize, &'static str, usize)> = vec![]; // (sample, what, variant)
    let surfaces = [Surface::RootPrefixes, Surface::DefaultNs, Surface::LocalDefault, Surface::Pretty];
    for (si, s) in samples.iter().enumerate() {
        let expr = values::rust_expr(&g, &lay, &s.value);
        let ty = lay.paths[&s.root].0.clone();
        match mode {
            Mode::Ser => {
                probes.push(Probe::Ser { expr });
                index.push((si, "ser", 0));
            }
            Mode::Roundtrip => {
                probes.push(Probe::Dbg { expr: expr.clone() });
                index.push((si, "dbg", 0));
                let root_local = case.model.comp(s.root).name.xml();
                let mut want = s.want.clone();
                want.local = root_local;
                for (k, sf) in surfaces.iter().enumerate() {
                    probes.push(Probe::De { ty: ty.clone(), xml: values::render_instance(&want, *sf) });
                    index.push((si, "de", k));
                }
                probes.push(Probe::Fix { ty: ty.clone(), expr });
                index.push((si, "fix", 0));
            }
            Mode::Restrict => {
                probes.push(Probe::Chk { expr });
                index.push((si, "chk", 0));
            }
        }
    }
    match drv::build(ex, dir, text, &probes, "") {
        Built::Ok => {}
        Built::CompileError(c) => {
            let in_driver = c.errors.first().and_then(|d| d.primary()).is_some_and(|s| s.file_name.ends_with("main.rs"));
            let sig = if in_driver { format!("value-literal-does-not-typecheck:{}", c.errors.first().map(|d| d.normalised()).unwrap_or_default()) } else { format!("uncompilable-output:{}", c.errors.first().map(|d| d.normalised()).unwrap_or_default()) };
            return (vec![Failure { sig, detail: c.raw_tail, q: None }], 0, notes);
        }
    }
    let answers = drv::run(dir, probes.len(), 8, &[]);
    let mut fails: Vec<Failure> = vec![];
    let mut push = |sig: String, detail: String, q: QRef| {
        if !fails.iter().any(|f: &Failure| f.sig == sig) {
            fails.push(Failure { sig, detail, q: Some(q) });
        }
    };
    let mut dbg_of: Vec<Option<String>> = vec![None; samples.len()];
    for (pi, (si, what, variant)) in index.iter().enumerate() {
        let a: &Answer = &answers[pi];
        let s = &samples[*si];
        if a.missing {
            let why = if a.hung { "hang" } else { "driver-died" };
            push(format!("{what}:{why}"), format!("probe {pi} for {}", case.model.comp(s.root).name.xml()), s.root);
            continue;
        }
        match *what {
            "ser" => {
                if !a.ok {
                    let class: String = a.text.chars().map(|c| if c.is_ascii_digit() { '#' } else { c }).take(60).collect();
                    push(format!("ser:error:{class}"), a.text.clone(), s.root);
                } else if let Some((k, d)) = doc_failure("ser", &a.text, &s.want, s.check_root_name) {
                    push(k, format!("{d} || document: {}", a.text.chars().take(400).collect::<String>()), s.root);
                }
            }
            "dbg" => dbg_of[*si] = Some(a.dbg.clone()),
            "de" => {
                let sf = surfaces[*variant];
                if !a.ok {
                    let class = error_class(&a.text);
                    push(format!("de:{sf:?}:error:{class}"), format!("{} || instance: {}", a.text, match &probes[pi] { Probe::De { xml, .. } => xml.chars().take(500).collect::<String>(), _ => String::new() }), s.root);
                } else {
                    if let Some(want_dbg) = &dbg_of[*si] {
                        if &a.dbg != want_dbg {
                            push(format!("de:{sf:?}:value-differs"), format!("got {} want {}", a.dbg.chars().take(300).collect::<String>(), want_dbg.chars().take(300).collect::<String>()), s.root);
                            continue;
                        }
                    }
                    // re-serialization: same elements, attributes, text and order
                    if let Some((k, d)) = doc_failure("reser", &a.text, &s.want, s.check_root_name) {
                        push(format!("{k}"), d, s.root);
                    }
                }
            }
            "fix" => {
                if !a.ok {
                    let why = if a.dbg.starts_with("DE-ERR") { "deserialization-of-own-output-fails" } else if a.text.starts_with("SER-ERR") { "serialization-fails" } else { "not-a-fixpoint" };
                    push(format!("fix:{why}"), format!("{} || {}", a.text.chars().take(300).collect::<String>(), a.dbg.chars().take(300).collect::<String>()), s.root);
                }
            }
            "chk" => {
                let expect_err = s.violated.is_some();
                if a.ok != expect_err {
                    let dir = if expect_err { "violation-not-detected" } else { "conforming-value-rejected" };
                    push(format!("chk:{dir}"), format!("planted: {:?}; check says: {}", s.violated, a.text), s.root);
                }
            }
            _ => {}
        }
    }
    if samples.iter().any(|s| s.violated.is_some()) {
        notes.push("has-planted-violation".into());
    }
    (fails, samples.len(), notes)
}

pub struct Cfg<'a> {
    pub id: &'a str,
    pub mode: Mode,
    pub rule: &'a str,
    pub n_quick: usize,
    pub n_thorough: usize,
    pub tune: &'a (dyn Fn(&mut Profile) + Sync),
    /// a further engine that adds its cases to the same evidence record (C03: SOAP envelopes as roots)
    pub also: Option<&'a (dyn Fn(&mut Evidence, &Findings, Tier) + Sync)>,
}

pub fn run_with(tier: Tier, cfg: &Cfg) -> i32 {
    let findings = Findings::load();
    findings.print_fixed(cfg.id);
    let mut ev = Evidence::new(cfg.id, tier, "exploration", cfg.rule);
    ev.assume("values are generated schema-valid from the model (choice groups: one branch; optional groups: all present or all absent); only canonical member names; text avoids leading/trailing white space and empty strings (yaserde trims / drops them for hand-written types as well)");
    let ex = match Externs::discover() {
        Ok(e) => e,
        Err(e) => {
            ev.inconclusive = Some(e);
            ev.evaluations = 1;
            return ev.finish();
        }
    };
    let (mut profile, gates) = profile_for(&findings, cfg.id);
    profile.wsdl = 0;
    profile.keyword_names = false; // member names stay canonical so that expected element names are certain
    (cfg.tune)(&mut profile);
    ev.extra.insert("gates_masked".into(), json!(gates));
    let scratch = scratch_dir(&cfg.id.to_lowercase());
    let n = tier.pick(cfg.n_quick, cfg.n_thorough);
    let mut runner = crate::common::runner(cfg.id);
    let strat = arb_case(profile.max_files);
    let mut trees = vec![];
    let mut wcs = vec![];
    for _ in 0..n {
        let t = strat.new_tree(&mut runner).unwrap();
        wcs.push(t.current());
        trees.push(t);
    }
    let cases: Vec<Case> = wcs.iter().map(|w| pipeline::make_case(w.raw.clone(), &profile)).collect();
    let outs = pipeline::emit_all(&cases);
    let results: Vec<(Vec<Failure>, usize, Vec<String>)> = cases
        .par_iter()
        .enumerate()
        .map(|(i, c)| {
            let dir = pipeline::case_dir(&scratch, i);
            let r = judge_emitted(&ex, &dir, c, &outs[i], &wcs[i].tape, cfg.mode);
            let _ = std::fs::remove_dir_all(&dir);
            r
        })
        .collect();
    let mut reported = BTreeSet::new();
    let mut judged = 0usize;
    let mut samples_total = 0u64;
    for (i, case) in cases.iter().enumerate() {
        let (fails, ns, notes) = &results[i];
        let nt = case.stats.features.contains("type.cross-namespace") || case.stats.features.contains("extension") || case.stats.features.contains("attribute") || case.stats.features.contains("particle.ref");
        ev.case(&format!("{:?}|{:?}", case.files, &wcs[i].tape[..8.min(wcs[i].tape.len())]), nt && *ns > 0);
        pipeline::count_features(&mut ev, &case.stats);
        for nn in notes {
            ev.class(nn);
        }
        samples_total += *ns as u64;
        if *ns > 0 || !fails.is_empty() {
            judged += 1;
        }
        if i < 2 {
            ev.sample(json!({"files": case.files.files.iter().map(|f| (f.0.clone(), f.1.chars().take(400).collect::<String>())).collect::<Vec<_>>(), "values": ns}));
        }
        for f in fails {
            let sig = format!("{} {}", cfg.id, f.sig);
            if !reported.insert(sig.clone()) {
                ev.class("further-failing-samples");
                continue;
            }
            let want = f.sig.clone();
            let sdir = scratch.join("shrink");
            let small = shrink(
                &mut trees[i],
                |w| {
                    let _ = std::fs::create_dir_all(&sdir);
                    judge(&ex, &sdir, w, &profile, cfg.mode).0.iter().any(|x| x.sig == want)
                },
                tier.pick(16, 50),
            );
            let small_case = pipeline::make_case(small.raw.clone(), &profile);
            let _ = std::fs::create_dir_all(&sdir);
            let detail = judge(&ex, &sdir, &small, &profile, cfg.mode).0.into_iter().find(|x| x.sig == f.sig).map(|x| x.detail).unwrap_or(f.detail.clone());
            route_failure(&mut ev, &findings, "wire", &sig, json!({"wire_case": small, "profile": profile, "files": small_case.files, "detail": detail}));
        }
    }
    // open findings of this property with a stored wire case: replay with the gate open
    for f in findings.findings.iter().filter(|f| f.status == "open" && f.properties.iter().any(|p| p == cfg.id)) {
        let Some(repro) = &f.repro else { continue };
        if !f.signatures.iter().any(|s| s.starts_with(&format!("{} ", cfg.id))) {
            continue;
        }
        let Ok(text) = std::fs::read_to_string(Path::new(VERIF).join(repro)) else { continue };
        let Ok(v) = serde_json::from_str::<serde_json::Value>(&text) else { continue };
        let c = if v["case"].is_object() { &v["case"] } else { &v };
        let (Ok(wc), Ok(prof)) = (serde_json::from_value::<WireCase>(c["wire_case"].clone()), serde_json::from_value::<Profile>(c["profile"].clone())) else { continue };
        ev.class("known-finding-replays");
        let rdir = scratch.join("finding");
        let _ = std::fs::create_dir_all(&rdir);
        let sigs: Vec<String> = judge(&ex, &rdir, &wc, &prof, cfg.mode).0.iter().map(|x| format!("{} {}", cfg.id, x.sig)).collect();
        if sigs.iter().any(|s| f.signatures.contains(s)) {
            ev.known_finding(f);
        } else if let Some(s) = sigs.first() {
            ev.violation("known-finding-repro-fails-differently", s, json!({"finding": f.id, "wire_case": wc, "profile": prof}));
        } else {
            ev.class("known-finding-no-longer-reproduces");
        }
    }
    ev.extra.insert("values_judged".into(), json!(samples_total));
    if judged * 2 < cases.len() {
        ev.inconclusive = Some(format!("only {judged} of {} cases produced values that could be judged", cases.len()));
    }
    let _ = std::fs::remove_dir_all(&scratch);
    if let Some(also) = cfg.also {
        also(&mut ev, &findings, tier);
    }
    ev.finish()
}

pub fn replay(id: &str, mode: Mode, case: &serde_json::Value) -> i32 {
    let ex = Externs::discover().expect("externs");
    let scratch = scratch_dir("wire-r");
    let wc: WireCase = serde_json::from_value(case["wire_case"].clone()).expect("wire case");
    let profile: Profile = serde_json::from_value(case["profile"].clone()).expect("profile");
    let (fails, n, notes) = judge(&ex, &scratch, &wc, &profile, mode);
    let _ = std::fs::remove_dir_all(&scratch);
    println!("{n} values judged; notes {notes:?}");
    for f in &fails {
        println!("{}: {}", f.sig, f.detail);
    }
    if fails.is_empty() {
        0
    } else {
        println!("VIOLATION property={id} replay=(this file)");
        1
    }
}
