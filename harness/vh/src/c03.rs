//! C03 — serialized values are schema-conformant, namespace-well-formed XML.
use crate::common::Tier;
use crate::wire::{self, Cfg, Mode};

pub fn run(tier: Tier) -> i32 {
    wire::run_with(
        tier,
        &Cfg {
            id: "C03",
            mode: Mode::Ser,
            rule: "supported-subset schema sets (canonical member names, 1-4 files, extensions across files, element refs, attributes, nested sequences, choices, derived simple types with facets, colliding namespace abbreviations) x up to 5 root types per set x 3 generated values each (optional present/absent, repeats 0..3, numeric extremes of every builtin, XML-special and multi-byte text, valid lexicals for date-like strings, facet-conformant restricted values, one branch per choice). Each value is written as a Rust expression in the generated types, compiled into a driver and serialized with yaserde::ser::to_string; the document is parsed by roxmltree (parse success = namespace-well-formed, every prefix declared) and compared with the expected infoset derived from the schema model: element QNames (namespace of the declaring schema), unqualified attributes by declared name, children in declaration order, absent optionals omitted, one element per item, leaf text equal in the value space of its builtin. In addition the request and response envelopes of 40 (thorough 400) generated WSDLs are serialized and compared in the same way (Envelope > Header entries under their own QNames > Body > bound element). Non-trivial: a set with a cross-namespace member, an extension, an attribute or an element ref, with at least one value judged; distinct by file set and value tape.",
            n_quick: 150,
            n_thorough: 2500,
            tune: &|p| {
                p.colliding_abbrev = true;
                p.xml_lang = 1;
            },
            // generated envelope types are generated types too: request envelopes of generated WSDLs
            // (Envelope > Header entries under their own QNames > Body > bound element)
            also: Some(&|ev, findings, tier| {
                crate::soap::run_into(ev, findings, tier, &crate::soap::Cfg { id: "C03", aspect: crate::soap::Aspect::EnvelopesSer, rule: "", n_quick: 40, n_thorough: 400 });
            }),
        },
    )
}

pub fn replay(case: &serde_json::Value) -> i32 {
    if case["aspect"].is_string() {
        return crate::soap::replay("C03", crate::soap::Aspect::EnvelopesSer, case);
    }
    wire::replay("C03", Mode::Ser, case)
}
