//! C07 — declared facets are enforced at every depth and before anything is sent.
use crate::common::Tier;
use crate::soap::{self, Aspect, Cfg};

pub fn run(tier: Tier) -> i32 {
    soap::run_with(
        tier,
        &Cfg {
            id: "C07",
            aspect: Aspect::Restrictions,
            rule: "generated WSDLs (C05 profile) whose schemas carry restricted simple types (numeric bounds, length facets, enumerations, derived from builtins and from other restricted simple types) used as element and attribute types at every position (required / optional / repeated, nested in complex members, in header and body, inherited through extensions). For every operation two request envelopes are generated: one conforming, one with a facet violation planted at a tape-chosen simple-typed leaf (just outside a numeric bound, too long, not enumerated); the same for up to five bare complex-type roots per schema. Oracle A: envelope.check_restrictions(None).is_err() (and the same on bare struct roots) must equal `a violation was planted`, where the facets that count are those of the leaf's type and of all its ancestors. Oracle B: calling the generated client method with the violating request against a loopback listener must return SoapError::Restriction and the listener must have received no request; the conforming request must be transmitted. Non-trivial: >= 2 operations, or a header, or an imported-namespace part; distinct by file set and value tape.",
            n_quick: 160,
            n_thorough: 1500,
        },
    )
}

pub fn replay(case: &serde_json::Value) -> i32 {
    soap::replay("C07", Aspect::Restrictions, case)
}
