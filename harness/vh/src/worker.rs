//! Process isolation for generations that may abort the process (stack overflow) or hang.
//! `vh worker` reads length-prefixed JSON file sets on stdin and answers one JSON line each.
//! The parent side (`run_all`) classifies: ok / read_err / write_err / panic / killed / timeout.

use crate::zeep::{self, FileSet, GenOutcome};
use serde::{Deserialize, Serialize};
use std::collections::VecDeque;
use std::io::{BufRead, BufReader, Read, Write};
use std::process::{Child, Command, Stdio};
use std::sync::{Arc, Mutex, mpsc};
use std::time::{Duration, Instant};

#[derive(Clone, Debug, PartialEq, Eq, Serialize, Deserialize)]
pub enum Outcome {
    Ok { output: String, ms: u64 },
    ReadErr { msg: String, ms: u64 },
    WriteErr { msg: String, ms: u64 },
    Panic { msg: String },
    Killed { signal: i32, stderr: String },
    Timeout { limit_ms: u64 },
}

impl Outcome {
    pub fn class(&self) -> &'static str {
        match self {
            Outcome::Ok { .. } => "ok",
            Outcome::ReadErr { .. } => "read_err",
            Outcome::WriteErr { .. } => "write_err",
            Outcome::Panic { .. } => "panic",
            Outcome::Killed { .. } => "killed",
            Outcome::Timeout { .. } => "timeout",
        }
    }
    pub fn returned(&self) -> bool {
        matches!(self, Outcome::Ok { .. } | Outcome::ReadErr { .. } | Outcome::WriteErr { .. })
    }
    pub fn output(&self) -> Option<&str> {
        match self {
            Outcome::Ok { output, .. } => Some(output),
            _ => None,
        }
    }
}

/// Child side.
pub fn worker_main() -> i32 {
    zeep::install_panic_hook();
    let stdin = std::io::stdin();
    let mut stdin = stdin.lock();
    let stdout = std::io::stdout();
    loop {
        let mut len = [0u8; 4];
        if stdin.read_exact(&mut len).is_err() {
            return 0;
        }
        let n = u32::from_le_bytes(len) as usize;
        let mut buf = vec![0u8; n];
        if stdin.read_exact(&mut buf).is_err() {
            return 0;
        }
        let fs: FileSet = match serde_json::from_slice(&buf) {
            Ok(f) => f,
            Err(e) => {
                eprintln!("worker: bad frame: {e}");
                return 3;
            }
        };
        // same stack size as a main thread: what a CLI user gets
        let h = std::thread::Builder::new()
            .stack_size(8 * 1024 * 1024)
            .spawn(move || {
                zeep::install_panic_hook();
                let t0 = Instant::now();
                let out = zeep::generate(&fs);
                (out, t0.elapsed().as_millis() as u64)
            })
            .expect("spawn");
        let res = match h.join() {
            Ok((GenOutcome::Ok(output), ms)) => Outcome::Ok { output, ms },
            Ok((GenOutcome::ReadErr(msg), ms)) => Outcome::ReadErr { msg, ms },
            Ok((GenOutcome::WriteErr(msg), ms)) => Outcome::WriteErr { msg, ms },
            Ok((GenOutcome::Panic(msg), _)) => Outcome::Panic { msg },
            Err(_) => Outcome::Panic { msg: "worker thread panicked outside catch_unwind".into() },
        };
        let mut so = stdout.lock();
        let _ = so.write_all(serde_json::to_string(&res).unwrap().as_bytes());
        let _ = so.write_all(b"\n");
        let _ = so.flush();
    }
}

struct Proc {
    child: Child,
    rx: mpsc::Receiver<String>,
    stderr: Arc<Mutex<String>>,
}

fn spawn_worker() -> Proc {
    let exe = std::env::current_exe().expect("exe");
    let mut child = Command::new(exe)
        .arg("worker")
        .stdin(Stdio::piped())
        .stdout(Stdio::piped())
        .stderr(Stdio::piped())
        .spawn()
        .expect("spawn worker");
    let out = child.stdout.take().unwrap();
    let (tx, rx) = mpsc::channel();
    std::thread::spawn(move || {
        let r = BufReader::new(out);
        for line in r.lines() {
            match line {
                Ok(l) => {
                    if tx.send(l).is_err() {
                        break;
                    }
                }
                Err(_) => break,
            }
        }
    });
    let err = child.stderr.take().unwrap();
    let stderr = Arc::new(Mutex::new(String::new()));
    let se = stderr.clone();
    std::thread::spawn(move || {
        let mut r = BufReader::new(err);
        let mut buf = String::new();
        while let Ok(n) = r.read_line(&mut buf) {
            if n == 0 {
                break;
            }
            let mut g = se.lock().unwrap();
            g.push_str(&buf);
            if g.len() > 4000 {
                let cut = g.len() - 2000;
                let cut = (cut..g.len()).find(|i| g.is_char_boundary(*i)).unwrap_or(0);
                *g = g[cut..].to_string();
            }
            buf.clear();
        }
    });
    Proc { child, rx, stderr }
}

pub fn limit_ms_for(fs: &FileSet) -> u64 {
    10_000 + (fs.total_len() as u64 / 100_000) * 1_000
}

fn run_one(p: &mut Option<Proc>, fs: &FileSet, limit_ms: u64) -> Outcome {
    if p.is_none() {
        *p = Some(spawn_worker());
    }
    let pr = p.as_mut().unwrap();
    let frame = serde_json::to_vec(fs).unwrap();
    let ok = {
        let stdin = pr.child.stdin.as_mut().unwrap();
        stdin.write_all(&(frame.len() as u32).to_le_bytes()).is_ok() && stdin.write_all(&frame).is_ok() && stdin.flush().is_ok()
    };
    let answer = if ok { pr.rx.recv_timeout(Duration::from_millis(limit_ms)) } else { Err(mpsc::RecvTimeoutError::Disconnected) };
    match answer {
        Ok(line) => serde_json::from_str(&line).unwrap_or(Outcome::Panic { msg: format!("unparsable worker answer: {}", &line[..line.len().min(200)]) }),
        Err(mpsc::RecvTimeoutError::Timeout) => {
            let _ = pr.child.kill();
            let _ = pr.child.wait();
            *p = None;
            Outcome::Timeout { limit_ms }
        }
        Err(mpsc::RecvTimeoutError::Disconnected) => {
            let status = pr.child.wait().ok();
            std::thread::sleep(Duration::from_millis(20));
            let stderr = pr.stderr.lock().unwrap().clone();
            *p = None;
            use std::os::unix::process::ExitStatusExt;
            let signal = status.and_then(|s| s.signal()).unwrap_or(-status.and_then(|s| s.code()).unwrap_or(0));
            let tail: String = stderr.lines().rev().take(4).collect::<Vec<_>>().into_iter().rev().collect::<Vec<_>>().join(" | ");
            Outcome::Killed { signal, stderr: tail }
        }
    }
}

/// Run every file set in an isolated worker (n parallel workers); results in input order.
pub fn run_all(cases: &[FileSet], workers: usize) -> Vec<Outcome> {
    let queue: Arc<Mutex<VecDeque<usize>>> = Arc::new(Mutex::new((0..cases.len()).collect()));
    let results: Arc<Mutex<Vec<Option<Outcome>>>> = Arc::new(Mutex::new(vec![None; cases.len()]));
    std::thread::scope(|s| {
        for _ in 0..workers.max(1).min(cases.len().max(1)) {
            let queue = queue.clone();
            let results = results.clone();
            s.spawn(move || {
                let mut proc: Option<Proc> = None;
                loop {
                    let i = { queue.lock().unwrap().pop_front() };
                    let Some(i) = i else { break };
                    let limit = limit_ms_for(&cases[i]);
                    let mut out = run_one(&mut proc, &cases[i], limit);
                    if matches!(out, Outcome::Timeout { .. }) {
                        // a timeout only counts after two solo re-runs with a tripled limit
                        let mut confirmed = true;
                        for _ in 0..2 {
                            let again = run_one(&mut proc, &cases[i], limit * 3);
                            if !matches!(again, Outcome::Timeout { .. }) {
                                out = again;
                                confirmed = false;
                                break;
                            }
                        }
                        if confirmed {
                            out = Outcome::Timeout { limit_ms: limit * 3 };
                        }
                    }
                    results.lock().unwrap()[i] = Some(out);
                }
                if let Some(mut p) = proc {
                    drop(p.child.stdin.take());
                    let _ = p.child.wait();
                }
            });
        }
    });
    Arc::try_unwrap(results).unwrap().into_inner().unwrap().into_iter().map(|o| o.expect("every case answered")).collect()
}

pub fn run_single(fs: &FileSet) -> Outcome {
    run_all(std::slice::from_ref(fs), 1).pop().unwrap()
}
