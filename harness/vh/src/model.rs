//! Schema model (= the supported-subset grammar of DESIGN.md section 2) and its renderer to
//! XSD / WSDL text. The model is plain serde data: it is the replay format.

use crate::zeep::FileSet;
use serde::{Deserialize, Serialize};

pub const BUILTINS: [&str; 27] = [
    "string", "normalizedString", "base64Binary", "hexBinary", "anyURI", "date", "dateTime", "time", "language", "duration", "boolean", "byte", "short", "int",
    "long", "unsignedByte", "unsignedShort", "unsignedInt", "unsignedLong", "integer", "negativeInteger", "nonNegativeInteger", "nonPositiveInteger",
    "positiveInteger", "float", "double", "decimal",
];

#[derive(Clone, Debug, PartialEq, Eq, Serialize, Deserialize, PartialOrd, Ord)]
pub enum Style {
    LowerCamel,
    UpperCamel,
    Snake,
    Kebab,
    Screaming,
    Dotted,
    /// taken literally (keywords, std-colliding, exotic names); `words` holds one element
    Raw,
}

#[derive(Clone, Debug, PartialEq, Eq, Serialize, Deserialize, PartialOrd, Ord)]
pub struct Name {
    pub words: Vec<String>,
    pub style: Style,
}

fn cap(w: &str) -> String {
    let mut c = w.chars();
    match c.next() {
        Some(f) => f.to_uppercase().collect::<String>() + c.as_str(),
        None => String::new(),
    }
}

impl Name {
    pub fn canonical(words: &[&str], style: Style) -> Name {
        Name { words: words.iter().map(|s| s.to_string()).collect(), style }
    }
    pub fn raw(s: &str) -> Name {
        Name { words: vec![s.to_string()], style: Style::Raw }
    }
    pub fn is_canonical(&self) -> bool {
        self.style != Style::Raw
    }
    /// the XML spelling
    pub fn xml(&self) -> String {
        match self.style {
            Style::LowerCamel => self.words.iter().enumerate().map(|(i, w)| if i == 0 { w.clone() } else { cap(w) }).collect(),
            Style::UpperCamel => self.words.iter().map(|w| cap(w)).collect(),
            Style::Snake => self.words.join("_"),
            Style::Kebab => self.words.join("-"),
            Style::Screaming => self.words.iter().map(|w| w.to_uppercase()).collect::<Vec<_>>().join("_"),
            Style::Dotted => self.words.join("."),
            Style::Raw => self.words[0].clone(),
        }
    }
    /// expected Rust type identifier (only asserted for canonical names)
    pub fn pascal(&self) -> String {
        self.words.iter().map(|w| cap(&w.to_lowercase())).collect()
    }
    /// expected Rust field identifier before keyword escaping
    pub fn snake(&self) -> String {
        self.words.iter().map(|w| w.to_lowercase()).collect::<Vec<_>>().join("_")
    }
}

/// reference to a component: (file index, component index)
#[derive(Clone, Copy, Debug, PartialEq, Eq, Serialize, Deserialize, PartialOrd, Ord)]
pub struct QRef {
    pub file: usize,
    pub comp: usize,
}

#[derive(Clone, Debug, PartialEq, Eq, Serialize, Deserialize)]
pub enum TypeRef {
    Builtin(String),
    Named(QRef),
}

#[derive(Clone, Copy, Debug, PartialEq, Eq, Serialize, Deserialize)]
pub enum MaxOcc {
    Absent,
    One,
    N(u32),
    Unbounded,
}

#[derive(Clone, Copy, Debug, PartialEq, Eq, Serialize, Deserialize)]
pub struct Occ {
    /// None = attribute absent
    pub min: Option<u8>,
    pub max: MaxOcc,
}

impl Occ {
    pub const ONE: Occ = Occ { min: None, max: MaxOcc::Absent };
    pub fn optional(&self) -> bool {
        self.min == Some(0)
    }
    pub fn repeats(&self) -> bool {
        matches!(self.max, MaxOcc::Unbounded) || matches!(self.max, MaxOcc::N(n) if n > 1)
    }
    pub fn attrs(&self) -> String {
        let mut s = String::new();
        if let Some(m) = self.min {
            s += &format!(" minOccurs=\"{m}\"");
        }
        match self.max {
            MaxOcc::Absent => {}
            MaxOcc::One => s += " maxOccurs=\"1\"",
            MaxOcc::N(n) => s += &format!(" maxOccurs=\"{n}\""),
            MaxOcc::Unbounded => s += " maxOccurs=\"unbounded\"",
        }
        s
    }
}

#[derive(Clone, Debug, PartialEq, Eq, Serialize, Deserialize)]
pub enum Particle {
    Elem { name: Name, ty: TypeRef, occ: Occ },
    Ref { to: QRef, occ: Occ },
    Seq(Seq),
    Choice { min0: bool, branches: Vec<Particle> },
}

#[derive(Clone, Debug, PartialEq, Eq, Serialize, Deserialize, Default)]
pub struct Seq {
    pub min0: bool,
    pub unbounded: bool,
    pub parts: Vec<Particle>,
}

#[derive(Clone, Copy, Debug, PartialEq, Eq, Serialize, Deserialize)]
pub enum AttrUse {
    Absent,
    Optional,
    Required,
}

#[derive(Clone, Debug, PartialEq, Eq, Serialize, Deserialize)]
pub struct Attr {
    pub name: Name,
    pub ty: TypeRef,
    pub use_: AttrUse,
    /// written as `<xs:attribute ref="xml:lang"/>`: a member in no namespace (name is `lang`)
    #[serde(default)]
    pub xml_lang: bool,
}

#[derive(Clone, Debug, PartialEq, Eq, Serialize, Deserialize, Default)]
pub struct Facets {
    pub min_inclusive: Option<i64>,
    pub max_inclusive: Option<i64>,
    pub min_exclusive: Option<i64>,
    pub max_exclusive: Option<i64>,
    pub length: Option<u8>,
    pub min_length: Option<u8>,
    pub max_length: Option<u8>,
    pub enumeration: Vec<String>,
}

impl Facets {
    pub fn is_empty(&self) -> bool {
        *self == Facets::default()
    }
}

#[derive(Clone, Debug, PartialEq, Eq, Serialize, Deserialize, Default)]
pub struct Body {
    /// extension base (complexContent/extension) if any
    pub base: Option<QRef>,
    pub seq: Option<Seq>,
    pub attrs: Vec<Attr>,
    /// (extensions only) the sequence consists of a single choice and the choice is written
    /// directly under xs:extension, without the sequence wrapper
    #[serde(default)]
    pub direct_choice: bool,
}

#[derive(Clone, Debug, PartialEq, Eq, Serialize, Deserialize)]
pub enum SimpleKind {
    Restriction { base: TypeRef, facets: Facets },
    List { item: TypeRef },
    Union { members: Vec<TypeRef> },
}

#[derive(Clone, Debug, PartialEq, Eq, Serialize, Deserialize)]
pub enum CompKind {
    Simple(SimpleKind),
    Complex(Body),
    /// global element with a type attribute
    ElementTyped(TypeRef),
    /// global element with an anonymous complex type
    ElementAnon(Body),
}

#[derive(Clone, Debug, PartialEq, Eq, Serialize, Deserialize)]
pub struct Comp {
    pub name: Name,
    pub kind: CompKind,
    pub doc: Option<String>,
}

#[derive(Clone, Debug, PartialEq, Eq, Serialize, Deserialize)]
pub struct SFile {
    pub name: String,
    pub ns: String,
    /// files imported directly (indices), in document order
    pub imports: Vec<usize>,
    pub comps: Vec<Comp>,
    /// prefix this file uses for its own namespace ("" = default namespace, unprefixed QNames)
    pub own_prefix: String,
    /// prefix used for each imported file's namespace, parallel to `imports`
    pub import_prefixes: Vec<String>,
    pub xs_prefix: String,
    /// the prefixes of the imported namespaces are declared on the nodes of the components that use
    /// them (complexType, the complexType of an anonymous-typed element) instead of on the schema root
    #[serde(default)]
    pub nested_decls: bool,
}

#[derive(Clone, Debug, PartialEq, Eq, Serialize, Deserialize)]
pub struct Part {
    pub name: Name,
    pub element: QRef,
}

#[derive(Clone, Debug, PartialEq, Eq, Serialize, Deserialize)]
pub struct Message {
    pub name: Name,
    pub parts: Vec<Part>,
}

#[derive(Clone, Debug, PartialEq, Eq, Serialize, Deserialize)]
pub struct Direction {
    pub message: usize,
    /// index of the body part; `named` = the binding says parts="..."
    pub body_part: usize,
    pub body_named: bool,
    /// header parts (indices into the same message)
    pub headers: Vec<usize>,
}

#[derive(Clone, Debug, PartialEq, Eq, Serialize, Deserialize)]
pub struct Operation {
    pub name: Name,
    pub input: Direction,
    pub output: Option<Direction>,
    /// None = attribute absent, Some("") = empty
    pub soap_action: Option<String>,
}

#[derive(Clone, Debug, PartialEq, Eq, Serialize, Deserialize)]
pub struct Wsdl {
    pub messages: Vec<Message>,
    pub operations: Vec<Operation>,
    pub port_type: Name,
    pub binding: Name,
    pub service: Name,
    pub address: String,
    /// target namespace of the WSDL itself when it differs from that of its inline schema
    #[serde(default)]
    pub own_ns: Option<String>,
    /// files rendered as further schemas inside wsdl:types instead of as sibling files (imported by
    /// the start file only, without a schemaLocation)
    #[serde(default)]
    pub inline: Vec<usize>,
}

#[derive(Clone, Debug, PartialEq, Eq, Serialize, Deserialize)]
pub struct Model {
    pub files: Vec<SFile>,
    pub start: usize,
    /// when present the start file is rendered as a WSDL whose inline schema holds its components
    pub wsdl: Option<Wsdl>,
}

impl Model {
    pub fn comp(&self, q: QRef) -> &Comp {
        &self.files[q.file].comps[q.comp]
    }
    pub fn ns_of(&self, q: QRef) -> &str {
        &self.files[q.file].ns
    }
    /// prefix under which file `from` knows the namespace of file `to`
    pub fn prefix_for(&self, from: usize, to: usize) -> String {
        let f = &self.files[from];
        if to == from || self.files[to].ns == f.ns {
            return f.own_prefix.clone();
        }
        for (k, imp) in f.imports.iter().enumerate() {
            if self.files[*imp].ns == self.files[to].ns {
                return f.import_prefixes[k].clone();
            }
        }
        // not importable: the generator never produces this
        "missing".into()
    }
    pub fn qname(&self, from: usize, q: QRef) -> String {
        let p = self.prefix_for(from, q.file);
        let n = self.comp(q).name.xml();
        if p.is_empty() { n } else { format!("{p}:{n}") }
    }
    fn type_attr(&self, from: usize, t: &TypeRef) -> String {
        match t {
            TypeRef::Builtin(b) => format!("{}:{}", self.files[from].xs_prefix, b),
            TypeRef::Named(q) => self.qname(from, *q),
        }
    }
}

pub fn esc_attr(s: &str) -> String {
    s.replace('&', "&amp;").replace('<', "&lt;").replace('"', "&quot;").replace('\n', "&#10;").replace('\r', "&#13;").replace('\t', "&#9;")
}
pub fn esc_text(s: &str) -> String {
    s.replace('&', "&amp;").replace('<', "&lt;").replace('>', "&gt;").replace('\r', "&#13;")
}

struct R<'a> {
    m: &'a Model,
    f: usize,
    xs: String,
    out: String,
}

impl R<'_> {
    fn line(&mut self, indent: usize, s: &str) {
        for _ in 0..indent {
            self.out.push_str("  ");
        }
        self.out.push_str(s);
        self.out.push('\n');
    }
    fn doc(&mut self, ind: usize, d: &Option<String>) {
        if let Some(d) = d {
            let xs = self.xs.clone();
            self.line(ind, &format!("<{xs}:annotation><{xs}:documentation>{}</{xs}:documentation></{xs}:annotation>", esc_text(d)));
        }
    }
    fn particle(&mut self, ind: usize, p: &Particle) {
        let xs = self.xs.clone();
        match p {
            Particle::Elem { name, ty, occ } => {
                let t = self.m.type_attr(self.f, ty);
                self.line(ind, &format!("<{xs}:element name=\"{}\" type=\"{}\"{}/>", esc_attr(&name.xml()), esc_attr(&t), occ.attrs()));
            }
            Particle::Ref { to, occ } => {
                let q = self.m.qname(self.f, *to);
                self.line(ind, &format!("<{xs}:element ref=\"{}\"{}/>", esc_attr(&q), occ.attrs()));
            }
            Particle::Seq(s) => self.seq(ind, s),
            Particle::Choice { min0, branches } => {
                self.line(ind, &format!("<{xs}:choice{}>", if *min0 { " minOccurs=\"0\"" } else { "" }));
                for b in branches {
                    self.particle(ind + 1, b);
                }
                self.line(ind, &format!("</{xs}:choice>"));
            }
        }
    }
    fn seq(&mut self, ind: usize, s: &Seq) {
        let xs = self.xs.clone();
        let mut a = String::new();
        if s.min0 {
            a += " minOccurs=\"0\"";
        }
        if s.unbounded {
            a += " maxOccurs=\"unbounded\"";
        }
        self.line(ind, &format!("<{xs}:sequence{a}>"));
        for p in &s.parts {
            self.particle(ind + 1, p);
        }
        self.line(ind, &format!("</{xs}:sequence>"));
    }
    fn attrs(&mut self, ind: usize, attrs: &[Attr]) {
        let xs = self.xs.clone();
        for a in attrs {
            let t = self.m.type_attr(self.f, &a.ty);
            let u = match a.use_ {
                AttrUse::Absent => "",
                AttrUse::Optional => " use=\"optional\"",
                AttrUse::Required => " use=\"required\"",
            };
            if a.xml_lang {
                self.line(ind, &format!("<{xs}:attribute ref=\"xml:lang\"{u}/>"));
                continue;
            }
            self.line(ind, &format!("<{xs}:attribute name=\"{}\" type=\"{}\"{u}/>", esc_attr(&a.name.xml()), esc_attr(&t)));
        }
    }
    fn body(&mut self, ind: usize, b: &Body) {
        let xs = self.xs.clone();
        if let Some(base) = b.base {
            let q = self.m.qname(self.f, base);
            self.line(ind, &format!("<{xs}:complexContent>"));
            self.line(ind + 1, &format!("<{xs}:extension base=\"{}\">", esc_attr(&q)));
            if let Some(s) = &b.seq {
                match (b.direct_choice, s.parts.as_slice()) {
                    (true, [p @ Particle::Choice { .. }]) if !s.min0 && !s.unbounded => self.particle(ind + 2, p),
                    _ => self.seq(ind + 2, s),
                }
            }
            self.attrs(ind + 2, &b.attrs);
            self.line(ind + 1, &format!("</{xs}:extension>"));
            self.line(ind, &format!("</{xs}:complexContent>"));
        } else {
            if let Some(s) = &b.seq {
                self.seq(ind, s);
            }
            self.attrs(ind, &b.attrs);
        }
    }
    fn comp(&mut self, ind: usize, c: &Comp) {
        let xs = self.xs.clone();
        let n = esc_attr(&c.name.xml());
        match &c.kind {
            CompKind::Simple(k) => {
                self.line(ind, &format!("<{xs}:simpleType name=\"{n}\">"));
                self.doc(ind + 1, &c.doc);
                match k {
                    SimpleKind::Restriction { base, facets } => {
                        let b = self.m.type_attr(self.f, base);
                        self.line(ind + 1, &format!("<{xs}:restriction base=\"{}\">", esc_attr(&b)));
                        let mut fl = |name: &str, v: String| self.line(ind + 2, &format!("<{xs}:{name} value=\"{}\"/>", esc_attr(&v)));
                        if let Some(v) = facets.min_inclusive {
                            fl("minInclusive", v.to_string());
                        }
                        if let Some(v) = facets.max_inclusive {
                            fl("maxInclusive", v.to_string());
                        }
                        if let Some(v) = facets.min_exclusive {
                            fl("minExclusive", v.to_string());
                        }
                        if let Some(v) = facets.max_exclusive {
                            fl("maxExclusive", v.to_string());
                        }
                        if let Some(v) = facets.length {
                            fl("length", v.to_string());
                        }
                        if let Some(v) = facets.min_length {
                            fl("minLength", v.to_string());
                        }
                        if let Some(v) = facets.max_length {
                            fl("maxLength", v.to_string());
                        }
                        for e in &facets.enumeration {
                            fl("enumeration", e.clone());
                        }
                        self.line(ind + 1, &format!("</{xs}:restriction>"));
                    }
                    SimpleKind::List { item } => {
                        let t = self.m.type_attr(self.f, item);
                        self.line(ind + 1, &format!("<{xs}:list itemType=\"{}\"/>", esc_attr(&t)));
                    }
                    SimpleKind::Union { members } => {
                        let t: Vec<String> = members.iter().map(|m| self.m.type_attr(self.f, m)).collect();
                        self.line(ind + 1, &format!("<{xs}:union memberTypes=\"{}\"/>", esc_attr(&t.join(" "))));
                    }
                }
                self.line(ind, &format!("</{xs}:simpleType>"));
            }
            CompKind::Complex(b) => {
                let decls = if nested_here(self.m, self.f) { import_decls(self.m, self.f) } else { String::new() };
                self.line(ind, &format!("<{xs}:complexType name=\"{n}\"{decls}>"));
                self.doc(ind + 1, &c.doc);
                self.body(ind + 1, b);
                self.line(ind, &format!("</{xs}:complexType>"));
            }
            CompKind::ElementTyped(t) => {
                let t = self.m.type_attr(self.f, t);
                self.line(ind, &format!("<{xs}:element name=\"{n}\" type=\"{}\"/>", esc_attr(&t)));
            }
            CompKind::ElementAnon(b) => {
                self.line(ind, &format!("<{xs}:element name=\"{n}\">"));
                // the documentation sits on the element (before its complexType) or inside the type
                let on_element = c.doc.as_ref().is_some_and(|d| d.len() % 2 == 1);
                if on_element {
                    self.doc(ind + 1, &c.doc);
                }
                let decls = if nested_here(self.m, self.f) { import_decls(self.m, self.f) } else { String::new() };
                self.line(ind + 1, &format!("<{xs}:complexType{decls}>"));
                if !on_element {
                    self.doc(ind + 2, &c.doc);
                }
                self.body(ind + 2, b);
                self.line(ind + 1, &format!("</{xs}:complexType>"));
                self.line(ind, &format!("</{xs}:element>"));
            }
        }
    }
}

fn xmlns_decls(m: &Model, f: usize) -> String {
    let file = &m.files[f];
    let mut s = format!(" xmlns:{}=\"http://www.w3.org/2001/XMLSchema\"", file.xs_prefix);
    if file.own_prefix.is_empty() {
        s += &format!(" xmlns=\"{}\"", esc_attr(&file.ns));
    } else {
        s += &format!(" xmlns:{}=\"{}\"", file.own_prefix, esc_attr(&file.ns));
    }
    if !nested_here(m, f) {
        s += &import_decls(m, f);
    }
    s
}

/// are the import prefixes of this file declared on component nodes? (never for a WSDL start file:
/// its message parts need them on the definitions element; never when simple types, global typed
/// elements or attributes refer to another namespace, since only complexType nodes carry them)
fn nested_here(m: &Model, f: usize) -> bool {
    let file = &m.files[f];
    if !file.nested_decls || (m.wsdl.is_some() && f == m.start) || m.wsdl.as_ref().is_some_and(|w| w.inline.contains(&f)) {
        return false;
    }
    let foreign = |t: &TypeRef| matches!(t, TypeRef::Named(q) if m.files[q.file].ns != file.ns);
    !file.comps.iter().any(|c| match &c.kind {
        CompKind::Simple(SimpleKind::Restriction { base, .. }) => foreign(base),
        CompKind::Simple(SimpleKind::List { item }) => foreign(item),
        CompKind::Simple(SimpleKind::Union { members }) => members.iter().any(foreign),
        CompKind::ElementTyped(t) => foreign(t),
        CompKind::Complex(_) | CompKind::ElementAnon(_) => false,
    })
}

fn import_decls(m: &Model, f: usize) -> String {
    let file = &m.files[f];
    let mut s = String::new();
    let mut seen: Vec<&str> = vec![];
    for (k, imp) in file.imports.iter().enumerate() {
        let p = file.import_prefixes[k].as_str();
        if m.files[*imp].ns == file.ns || seen.contains(&p) {
            continue;
        }
        seen.push(p);
        s += &format!(" xmlns:{}=\"{}\"", p, esc_attr(&m.files[*imp].ns));
    }
    s
}

fn schema_element(m: &Model, f: usize, ind: usize, with_xmlns: bool) -> String {
    let file = &m.files[f];
    let xs = file.xs_prefix.clone();
    let mut r = R { m, f, xs: xs.clone(), out: String::new() };
    let decl = if with_xmlns { xmlns_decls(m, f) } else { String::new() };
    r.line(ind, &format!("<{xs}:schema{decl} targetNamespace=\"{}\" elementFormDefault=\"qualified\">", esc_attr(&file.ns)));
    for imp in &file.imports {
        let i = &m.files[*imp];
        if m.wsdl.as_ref().is_some_and(|w| w.inline.contains(imp)) {
            // the namespace lives in another schema of the same wsdl:types
            r.line(ind + 1, &format!("<{xs}:import namespace=\"{}\"/>", esc_attr(&i.ns)));
            continue;
        }
        r.line(ind + 1, &format!("<{xs}:import namespace=\"{}\" schemaLocation=\"{}\"/>", esc_attr(&i.ns), esc_attr(&i.name)));
    }
    for c in &file.comps {
        r.comp(ind + 1, c);
    }
    r.line(ind, &format!("</{xs}:schema>"));
    r.out
}

pub fn render_xsd(m: &Model, f: usize) -> String {
    format!("<?xml version=\"1.0\" encoding=\"UTF-8\"?>\n{}", schema_element(m, f, 0, true))
}

pub fn render_wsdl(m: &Model, f: usize, w: &Wsdl) -> String {
    let file = &m.files[f];
    let tp = if file.own_prefix.is_empty() { "tns".to_string() } else { file.own_prefix.clone() };
    let mut s = String::from("<?xml version=\"1.0\" encoding=\"UTF-8\"?>\n");
    // the definitions element carries every prefix the document uses
    let mut decl = xmlns_decls(m, f);
    if file.own_prefix.is_empty() {
        decl += &format!(" xmlns:tns=\"{}\"", esc_attr(&file.ns));
    }
    // the WSDL's own components (messages, port type, binding) are referred to through wp
    let wp = if w.own_ns.is_some() { "wns".to_string() } else { tp.clone() };
    if let Some(own) = &w.own_ns {
        decl += &format!(" xmlns:wns=\"{}\"", esc_attr(own));
    }
    s += &format!(
        "<wsdl:definitions xmlns:wsdl=\"http://schemas.xmlsoap.org/wsdl/\" xmlns:soap=\"http://schemas.xmlsoap.org/wsdl/soap/\"{decl} targetNamespace=\"{}\">\n  <wsdl:types>\n",
        esc_attr(w.own_ns.as_deref().unwrap_or(&file.ns))
    );
    // further schemas of other namespaces first (what they declare is referred to by the main one)
    let mut inline = w.inline.clone();
    inline.sort_unstable_by(|a, b| b.cmp(a));
    for j in inline {
        s += &schema_element(m, j, 2, false);
    }
    s += &schema_element(m, f, 2, false);
    s += "  </wsdl:types>\n";
    for msg in &w.messages {
        s += &format!("  <wsdl:message name=\"{}\">\n", esc_attr(&msg.name.xml()));
        for p in &msg.parts {
            // element QNames in a WSDL always carry a prefix
            let pfx = {
                let p0 = m.prefix_for(f, p.element.file);
                if p0.is_empty() { tp.clone() } else { p0 }
            };
            s += &format!("    <wsdl:part name=\"{}\" element=\"{}:{}\"/>\n", esc_attr(&p.name.xml()), pfx, esc_attr(&m.comp(p.element).name.xml()));
        }
        s += "  </wsdl:message>\n";
    }
    s += &format!("  <wsdl:portType name=\"{}\">\n", esc_attr(&w.port_type.xml()));
    for op in &w.operations {
        s += &format!("    <wsdl:operation name=\"{}\">\n", esc_attr(&op.name.xml()));
        s += &format!("      <wsdl:input message=\"{wp}:{}\"/>\n", esc_attr(&w.messages[op.input.message].name.xml()));
        if let Some(o) = &op.output {
            s += &format!("      <wsdl:output message=\"{wp}:{}\"/>\n", esc_attr(&w.messages[o.message].name.xml()));
        }
        s += "    </wsdl:operation>\n";
    }
    s += "  </wsdl:portType>\n";
    s += &format!("  <wsdl:binding name=\"{}\" type=\"{wp}:{}\">\n", esc_attr(&w.binding.xml()), esc_attr(&w.port_type.xml()));
    s += "    <soap:binding style=\"document\" transport=\"http://schemas.xmlsoap.org/soap/http\"/>\n";
    for op in &w.operations {
        s += &format!("    <wsdl:operation name=\"{}\">\n", esc_attr(&op.name.xml()));
        match &op.soap_action {
            None => s += "      <soap:operation/>\n",
            Some(a) => s += &format!("      <soap:operation soapAction=\"{}\"/>\n", esc_attr(a)),
        }
        let mut dir = |tag: &str, d: &Direction| {
            let msg = &w.messages[d.message];
            let mut t = format!("      <wsdl:{tag}>\n");
            for h in &d.headers {
                t += &format!("        <soap:header message=\"{wp}:{}\" part=\"{}\" use=\"literal\"/>\n", esc_attr(&msg.name.xml()), esc_attr(&msg.parts[*h].name.xml()));
            }
            if d.body_named {
                t += &format!("        <soap:body use=\"literal\" parts=\"{}\"/>\n", esc_attr(&msg.parts[d.body_part].name.xml()));
            } else {
                t += "        <soap:body use=\"literal\"/>\n";
            }
            t += &format!("      </wsdl:{tag}>\n");
            t
        };
        s += &dir("input", &op.input);
        if let Some(o) = &op.output {
            s += &dir("output", o);
        }
        s += "    </wsdl:operation>\n";
    }
    s += "  </wsdl:binding>\n";
    s += &format!(
        "  <wsdl:service name=\"{}\">\n    <wsdl:port name=\"{}Port\" binding=\"{wp}:{}\">\n      <soap:address location=\"{}\"/>\n    </wsdl:port>\n  </wsdl:service>\n</wsdl:definitions>\n",
        esc_attr(&w.service.xml()),
        esc_attr(&w.service.xml()),
        esc_attr(&w.binding.xml()),
        esc_attr(&w.address)
    );
    s
}

pub fn render(m: &Model) -> FileSet {
    let mut files = vec![];
    for (i, f) in m.files.iter().enumerate() {
        if m.wsdl.as_ref().is_some_and(|w| w.inline.contains(&i)) {
            continue;
        }
        let text = match (&m.wsdl, i == m.start) {
            (Some(w), true) => render_wsdl(m, i, w),
            _ => render_xsd(m, i),
        };
        files.push((f.name.clone(), text));
    }
    FileSet { start: m.files[m.start].name.clone(), files }
}
