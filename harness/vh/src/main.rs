#![allow(dead_code, unused_imports, unused_mut, unused_variables, private_interfaces)]
//! vh — verification harness for mibes404/zeep (property-based testing and fuzzing).
//!   vh <ID> quick|thorough
//!   vh replay <file>
mod common;
mod hc;
mod c01;
mod c02;
mod c03;
mod c04;
mod c05;
mod c18;
mod soap;
mod drv;
mod wire;
mod c06;
mod c07;
mod c08;
mod c09;
mod c10;
mod expect;
mod sgen;
mod values;
mod model;
mod outscan;
mod pipeline;
mod rustc;
mod c11;
mod worker;
mod c12;
mod c13;
mod c14;
mod c15;
mod c16;
mod c17;
mod c19;
mod zeep;

use common::Tier;

fn main() {
    let args: Vec<String> = std::env::args().skip(1).collect();
    let code = match args.as_slice() {
        [cmd, file] if cmd == "replay" => replay(file),
        [cmd, file] if cmd == "gen-worker" => c12::gen_worker(file),
        [cmd, file] if cmd == "show" => c01::show(file),
        [cmd, dir] if cmd == "dump-corpus" => {
            // triage helper: write the output for every repository input into <dir>
            zeep::install_panic_hook();
            std::fs::create_dir_all(dir).unwrap();
            for (l, fs) in zeep::repo_corpus() {
                let out = worker::run_single(&fs);
                let name = l.replace('/', "_");
                std::fs::write(format!("{dir}/{name}.txt"), match &out { worker::Outcome::Ok { output, .. } => output.clone(), o => format!("{o:?}") }).unwrap();
            }
            0
        }
        [cmd] if cmd == "worker" => worker::worker_main(),
        [id, tier] => {
            let tier = match tier.as_str() {
                "quick" => Tier::Quick,
                "thorough" => Tier::Thorough,
                _ => usage(),
            };
            run(id, tier)
        }
        _ => usage(),
    };
    std::process::exit(code);
}

fn usage() -> ! {
    eprintln!("usage: vh <C01..C19> quick|thorough | vh replay <file>");
    std::process::exit(2);
}

fn run(id: &str, tier: Tier) -> i32 {
    match id {
        "C01" => c01::run(tier),
        "C02" => c02::run(tier),
        "C03" => c03::run(tier),
        "C04" => c04::run(tier),
        "C05" => c05::run(tier),
        "C18" => c18::run(tier),
        "C06" => c06::run(tier),
        "C07" => c07::run(tier),
        "C08" => c08::run(tier),
        "C09" => c09::run(tier),
        "C10" => c10::run(tier),
        "C11" => c11::run(tier),
        "C12" => c12::run(tier),
        "C13" => c13::run(tier),
        "C14" => c14::run(tier),
        "C15" => c15::run(tier),
        "C16" => c16::run(tier),
        "C17" => c17::run(tier),
        "C19" => c19::run(tier),
        _ => {
            eprintln!("unknown property {id}");
            2
        }
    }
}

fn replay(file: &str) -> i32 {
    let text = std::fs::read_to_string(file).expect("read replay file");
    let v: serde_json::Value = serde_json::from_str(&text).expect("replay file is JSON");
    match v["property"].as_str().unwrap_or("") {
        "C01" => c01::replay(&v["case"]),
        "C02" => c02::replay(&v["case"]),
        "C03" => c03::replay(&v["case"]),
        "C04" => c04::replay(&v["case"]),
        "C05" => c05::replay(&v["case"]),
        "C18" => c18::replay(&v["case"]),
        "C06" => c06::replay(&v["case"]),
        "C07" => c07::replay(&v["case"]),
        "C08" => c08::replay(&v["case"]),
        "C09" => c09::replay(&v["case"]),
        "C10" => c10::replay(&v["case"]),
        "C11" => c11::replay(&v["case"]),
        "C12" => c12::replay(&v["case"]),
        "C13" => c13::replay(&v["case"]),
        "C14" => c14::replay(&v["case"]),
        "C15" => c15::replay(&v["case"]),
        "C16" => c16::replay(&v["case"]),
        "C17" => c17::replay(&v["case"]),
        "C19" => c19::replay(&v["case"]),
        p => {
            eprintln!("no replay for property {p}");
            2
        }
    }
}
