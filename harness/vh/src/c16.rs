//! C16 — one POST per call; 4xx/5xx and unparsable replies are errors, never values.
//!
//! The helper source (`send_soap_request_using_client`) is compiled unmodified from /repo and
//! driven with probe envelope types against a scripted loopback HTTP server written on raw
//! sockets (so it can refuse, close early, truncate). Scripts are proptest-generated call
//! histories on one client object.

use crate::common::*;
use crate::hc;
use crate::hc::error::{SoapError, SoapResult};
use crate::hc::restrictions::{CheckRestrictions, Restrictions};
use base64::Engine;
use proptest::prelude::*;
use proptest::strategy::ValueTree;
use serde_json::json;
use std::io::{Read, Write};
use std::net::{TcpListener, TcpStream};
use std::rc::Rc;
use std::sync::{Arc, Mutex};
use std::time::Duration;
use yaserde_derive::{YaDeserialize, YaSerialize};

// ---- probe envelopes (shape of what the generator emits) --------------------------------------

#[derive(Debug, Default, Clone, PartialEq, YaSerialize, YaDeserialize, serde::Serialize, serde::Deserialize)]
#[yaserde(prefix = "prb", namespaces = {"prb" = "urn:probe:svc"}, rename = "Ping")]
pub struct Ping {
    #[yaserde(prefix = "prb", rename = "text")]
    pub text: String,
    #[yaserde(prefix = "prb", rename = "count")]
    pub count: i64,
    #[yaserde(prefix = "prb", rename = "tag")]
    pub tag: Vec<String>,
    #[yaserde(prefix = "prb", rename = "level")]
    pub level: Option<Level>,
}
#[derive(Debug, Default, Clone, PartialEq, YaSerialize, YaDeserialize, serde::Serialize, serde::Deserialize)]
#[yaserde(prefix = "prb", namespaces = {"prb" = "urn:probe:svc"}, rename = "Level")]
pub struct Level {
    #[yaserde(text = true)]
    pub value: String,
}
impl CheckRestrictions for Level {
    fn check_restrictions(&self, _r: Option<Rc<Restrictions>>) -> SoapResult<()> {
        let r = Some(Rc::new(Restrictions { min_inclusive: Some(1), max_inclusive: Some(9), ..Default::default() }));
        self.value.check_restrictions(r)
    }
}
impl CheckRestrictions for Ping {
    fn check_restrictions(&self, r: Option<Rc<Restrictions>>) -> SoapResult<()> {
        self.text.check_restrictions(r.clone())?;
        self.count.check_restrictions(r.clone())?;
        self.tag.check_restrictions(r.clone())?;
        self.level.check_restrictions(r)
    }
}
#[derive(Debug, Default, Clone, PartialEq, YaSerialize, YaDeserialize)]
#[yaserde(prefix = "prb", namespaces = {"soapenv" = "http://schemas.xmlsoap.org/soap/envelope/", "prb" = "urn:probe:svc"})]
pub struct ReqBody {
    #[yaserde(prefix = "prb", rename = "Ping")]
    pub ping: Ping,
}
impl CheckRestrictions for ReqBody {
    fn check_restrictions(&self, r: Option<Rc<Restrictions>>) -> SoapResult<()> {
        self.ping.check_restrictions(r)
    }
}
#[derive(Debug, Default, Clone, PartialEq, YaSerialize, YaDeserialize)]
#[yaserde(prefix = "soapenv", rename = "Envelope", namespaces = {"soapenv" = "http://schemas.xmlsoap.org/soap/envelope/", "prb" = "urn:probe:svc"})]
pub struct ReqEnv {
    #[yaserde(prefix = "soapenv", rename = "Body")]
    pub body: ReqBody,
}
impl CheckRestrictions for ReqEnv {
    fn check_restrictions(&self, r: Option<Rc<Restrictions>>) -> SoapResult<()> {
        self.body.check_restrictions(r)
    }
}

#[derive(Debug, Default, Clone, PartialEq, YaSerialize, YaDeserialize, serde::Serialize, serde::Deserialize)]
#[yaserde(prefix = "prb", namespaces = {"prb" = "urn:probe:svc"}, rename = "Pong")]
pub struct Pong {
    #[yaserde(prefix = "prb", rename = "text")]
    pub text: String,
    #[yaserde(prefix = "prb", rename = "n")]
    pub n: i32,
    #[yaserde(prefix = "prb", rename = "more")]
    pub more: Option<String>,
}
#[derive(Debug, Default, Clone, PartialEq, YaSerialize, YaDeserialize)]
#[yaserde(prefix = "prb", namespaces = {"soapenv" = "http://schemas.xmlsoap.org/soap/envelope/", "prb" = "urn:probe:svc"})]
pub struct RespBody {
    #[yaserde(prefix = "prb", rename = "Pong")]
    pub pong: Pong,
}
#[derive(Debug, Default, Clone, PartialEq, YaSerialize, YaDeserialize)]
#[yaserde(prefix = "soapenv", rename = "Envelope", namespaces = {"soapenv" = "http://schemas.xmlsoap.org/soap/envelope/", "prb" = "urn:probe:svc"})]
pub struct RespEnv {
    #[yaserde(prefix = "soapenv", rename = "Body")]
    pub body: RespBody,
}

// ---- script -----------------------------------------------------------------------------------

#[derive(Clone, Copy, Debug, PartialEq, Eq, serde::Serialize, serde::Deserialize)]
pub enum Transport {
    Ok,
    Refused,
    CloseBeforeHeaders,
    CloseAfterHeaders,
}
#[derive(Clone, Copy, Debug, PartialEq, Eq, serde::Serialize, serde::Deserialize)]
pub enum BodyKind {
    ExactEnvelope,
    ReprefixedEnvelope,
    DefaultNsEnvelope,
    Empty,
    NonXml,
    Truncated,
    OtherRoot,
    FaultEnvelope,
    WrongNamespaceEnvelope,
}
#[derive(Clone, Debug, serde::Serialize, serde::Deserialize)]
pub struct Call {
    pub req: Ping,
    pub status: u16,
    pub body: BodyKind,
    pub transport: Transport,
    pub pong: Pong,
}
#[derive(Clone, Debug, serde::Serialize, serde::Deserialize)]
pub struct Script {
    pub path: String,
    pub credentials: Option<(String, String)>,
    pub calls: Vec<Call>,
}

fn xml_text() -> impl Strategy<Value = String> {
    prop_oneof![3 => "[a-zA-Z0-9 ]{1,12}", 1 => "[a-z<>&é😀]{1,8}", 1 => "[a-z]{200,300}"]
}

fn arb_call() -> impl Strategy<Value = Call> {
    let ping = (xml_text(), any::<i64>(), proptest::collection::vec("[a-z]{1,6}", 0..3), proptest::option::weighted(0.4, -2i32..=12))
        .prop_map(|(text, count, tag, level)| Ping { text, count, tag, level: level.map(|v| Level { value: v.to_string() }) });
    let pong = ("[a-zA-Z0-9]{1,10}", any::<i32>(), proptest::option::of("[a-z]{1,8}")).prop_map(|(text, n, more)| Pong { text, n, more });
    (
        ping,
        prop_oneof![4 => Just(200u16), 1 => Just(201u16), 1 => Just(204u16), 1 => Just(400u16), 1 => Just(401u16), 1 => Just(403u16), 1 => Just(404u16), 2 => Just(500u16), 1 => Just(503u16)],
        prop_oneof![
            5 => Just(BodyKind::ExactEnvelope),
            2 => Just(BodyKind::ReprefixedEnvelope),
            2 => Just(BodyKind::DefaultNsEnvelope),
            1 => Just(BodyKind::Empty),
            1 => Just(BodyKind::NonXml),
            1 => Just(BodyKind::Truncated),
            1 => Just(BodyKind::OtherRoot),
            1 => Just(BodyKind::FaultEnvelope),
            1 => Just(BodyKind::WrongNamespaceEnvelope),
        ],
        prop_oneof![10 => Just(Transport::Ok), 1 => Just(Transport::Refused), 1 => Just(Transport::CloseBeforeHeaders), 1 => Just(Transport::CloseAfterHeaders)],
        pong,
    )
        .prop_map(|(req, status, body, transport, pong)| {
            // a 204 reply cannot carry a body (HTTP), so it is always the "empty" case
            let body = if status == 204 { BodyKind::Empty } else { body };
            Call { req, status, body, transport, pong }
        })
}

fn arb_script() -> impl Strategy<Value = Script> {
    (
        "(/[a-z]{1,6}){0,3}(\\?[a-z]=[0-9])?",
        proptest::option::weighted(0.5, (prop_oneof![3 => "[a-z]{1,8}".boxed(), 1 => "[a-z:é ]{1,8}".boxed(), 1 => Just(String::new()).boxed()], prop_oneof![2 => "[a-zA-Z0-9]{0,10}", 1 => "[a-z:é@ ]{0,10}"])),
        proptest::collection::vec(arb_call(), 1..=4),
    )
        .prop_map(|(path, credentials, calls)| Script { path: if path.is_empty() || path.starts_with('?') { format!("/{path}") } else { path }, credentials, calls })
}

fn esc(s: &str) -> String {
    s.replace('&', "&amp;").replace('<', "&lt;").replace('>', "&gt;")
}

fn body_text(kind: BodyKind, p: &Pong) -> String {
    let more = |pre: &str| p.more.as_ref().map(|m| format!("<{pre}more>{}</{pre}more>", esc(m))).unwrap_or_default();
    match kind {
        BodyKind::ExactEnvelope => yaserde::ser::to_string(&RespEnv { body: RespBody { pong: p.clone() } }).unwrap(),
        BodyKind::ReprefixedEnvelope => format!(
            "<?xml version=\"1.0\"?>\n<S:Envelope xmlns:S=\"http://schemas.xmlsoap.org/soap/envelope/\">\n  <S:Body>\n    <ns2:Pong xmlns:ns2=\"urn:probe:svc\"><ns2:text>{}</ns2:text><ns2:n>{}</ns2:n>{}</ns2:Pong>\n  </S:Body>\n</S:Envelope>",
            esc(&p.text),
            p.n,
            more("ns2:")
        ),
        BodyKind::DefaultNsEnvelope => format!(
            "<soap:Envelope xmlns:soap=\"http://schemas.xmlsoap.org/soap/envelope/\"><soap:Body><Pong xmlns=\"urn:probe:svc\"><text>{}</text><n>{}</n>{}</Pong></soap:Body></soap:Envelope>",
            esc(&p.text),
            p.n,
            more("")
        ),
        BodyKind::Empty => String::new(),
        BodyKind::NonXml => format!("Service temporarily unavailable: {}", p.text),
        BodyKind::Truncated => {
            let full = body_text(BodyKind::ExactEnvelope, p);
            // cut inside the payload element's text (yaserde reports premature end there)
            let at = full.find("<prb:text>").map(|i| i + 10).unwrap_or(full.len() / 2);
            full[..at].to_string()
        }
        BodyKind::OtherRoot => format!("<html><body><h1>{}</h1></body></html>", esc(&p.text)),
        BodyKind::FaultEnvelope => "<soapenv:Envelope xmlns:soapenv=\"http://schemas.xmlsoap.org/soap/envelope/\"><soapenv:Body><soapenv:Fault><faultcode>soapenv:Server</faultcode><faultstring>boom</faultstring></soapenv:Fault></soapenv:Body></soapenv:Envelope>".to_string(),
        BodyKind::WrongNamespaceEnvelope => format!("<Envelope xmlns=\"urn:not-soap\"><Body><Pong xmlns=\"urn:probe:svc\"><text>{}</text><n>{}</n></Pong></Body></Envelope>", esc(&p.text), p.n),
    }
}

fn is_envelope(kind: BodyKind) -> bool {
    matches!(kind, BodyKind::ExactEnvelope | BodyKind::ReprefixedEnvelope | BodyKind::DefaultNsEnvelope)
}

// ---- scripted server --------------------------------------------------------------------------

#[derive(Clone, Debug, Default)]
pub struct Recorded {
    pub method: String,
    pub target: String,
    pub headers: Vec<(String, String)>,
    pub body: Vec<u8>,
}

#[derive(Clone)]
struct Step {
    status: u16,
    body: String,
    transport: Transport,
}

struct Server {
    port: u16,
    step: Arc<Mutex<Option<Step>>>,
    recorded: Arc<Mutex<Vec<Recorded>>>,
    accepted: Arc<Mutex<usize>>,
}

fn read_request(s: &mut TcpStream) -> Option<Recorded> {
    s.set_read_timeout(Some(Duration::from_secs(5))).ok()?;
    let mut buf = Vec::new();
    let mut tmp = [0u8; 4096];
    let head_end;
    loop {
        let n = s.read(&mut tmp).ok()?;
        if n == 0 {
            return None;
        }
        buf.extend_from_slice(&tmp[..n]);
        if let Some(p) = buf.windows(4).position(|w| w == b"\r\n\r\n") {
            head_end = p + 4;
            break;
        }
    }
    let head = String::from_utf8_lossy(&buf[..head_end]).to_string();
    let mut lines = head.split("\r\n");
    let rl: Vec<&str> = lines.next()?.split(' ').collect();
    let mut rec = Recorded { method: rl.first()?.to_string(), target: rl.get(1)?.to_string(), ..Default::default() };
    let mut clen = 0usize;
    let mut chunked = false;
    for l in lines {
        if let Some((k, v)) = l.split_once(':') {
            let (k, v) = (k.trim().to_ascii_lowercase(), v.trim().to_string());
            if k == "content-length" {
                clen = v.parse().unwrap_or(0);
            }
            if k == "transfer-encoding" && v.to_ascii_lowercase().contains("chunked") {
                chunked = true;
            }
            rec.headers.push((k, v));
        }
    }
    let mut body = buf[head_end..].to_vec();
    if chunked {
        // not expected from reqwest with a String body; read until the terminating chunk
        while !body.ends_with(b"0\r\n\r\n") {
            let n = s.read(&mut tmp).ok()?;
            if n == 0 {
                break;
            }
            body.extend_from_slice(&tmp[..n]);
        }
        rec.headers.push(("x-vh-chunked".into(), "1".into()));
    } else {
        while body.len() < clen {
            let n = s.read(&mut tmp).ok()?;
            if n == 0 {
                break;
            }
            body.extend_from_slice(&tmp[..n]);
        }
    }
    rec.body = body;
    Some(rec)
}

fn reason(status: u16) -> &'static str {
    match status {
        200 => "OK",
        201 => "Created",
        204 => "No Content",
        400 => "Bad Request",
        401 => "Unauthorized",
        403 => "Forbidden",
        404 => "Not Found",
        500 => "Internal Server Error",
        503 => "Service Unavailable",
        _ => "Status",
    }
}

impl Server {
    fn start() -> Server {
        let listener = TcpListener::bind("127.0.0.1:0").expect("bind loopback");
        let port = listener.local_addr().unwrap().port();
        let step: Arc<Mutex<Option<Step>>> = Arc::new(Mutex::new(None));
        let recorded = Arc::new(Mutex::new(Vec::new()));
        let accepted = Arc::new(Mutex::new(0usize));
        let (st, rc, ac) = (step.clone(), recorded.clone(), accepted.clone());
        std::thread::spawn(move || {
            for conn in listener.incoming() {
                let Ok(mut s) = conn else { continue };
                *ac.lock().unwrap() += 1;
                let step = st.lock().unwrap().clone().unwrap_or(Step { status: 500, body: String::new(), transport: Transport::Ok });
                // a connection may carry several requests if the client keeps it alive
                loop {
                    let Some(req) = read_request(&mut s) else { break };
                    rc.lock().unwrap().push(req);
                    match step.transport {
                        Transport::CloseBeforeHeaders => break,
                        Transport::CloseAfterHeaders => {
                            let _ = write!(s, "HTTP/1.1 {} {}\r\nContent-Type: text/xml\r\nContent-Length: {}\r\nConnection: close\r\n\r\n", step.status, reason(step.status), step.body.len() + 50);
                            let _ = s.write_all(&step.body.as_bytes()[..step.body.len() / 2]);
                            break;
                        }
                        _ => {
                            let _ = write!(s, "HTTP/1.1 {} {}\r\nContent-Type: text/xml; charset=utf-8\r\nContent-Length: {}\r\nConnection: close\r\n\r\n", step.status, reason(step.status), step.body.len());
                            let _ = s.write_all(step.body.as_bytes());
                            let _ = s.flush();
                            break;
                        }
                    }
                }
                let _ = s.shutdown(std::net::Shutdown::Both);
            }
        });
        Server { port, step, recorded, accepted }
    }
}

fn closed_port() -> u16 {
    let l = TcpListener::bind("127.0.0.1:0").unwrap();
    l.local_addr().unwrap().port()
}

// ---- judging ----------------------------------------------------------------------------------

pub struct Fail {
    pub sig: String,
    pub detail: String,
}

pub fn run_script(script: &Script, server: &Server, rt: &tokio::runtime::Runtime, client: &reqwest::Client) -> Vec<Fail> {
    let mut fails = vec![];
    for call in &script.calls {
        let req = ReqEnv { body: ReqBody { ping: call.req.clone() } };
        let violates = req.check_restrictions(None).is_err();
        let expected_body = yaserde::ser::to_string(&req).unwrap();
        *server.step.lock().unwrap() = Some(Step { status: call.status, body: body_text(call.body, &call.pong), transport: call.transport });
        server.recorded.lock().unwrap().clear();
        let acc0 = *server.accepted.lock().unwrap();
        let port = if call.transport == Transport::Refused { closed_port() } else { server.port };
        let url = format!("http://127.0.0.1:{port}{}", script.path);
        let creds = script.credentials.clone();
        let res: SoapResult<RespEnv> = rt.block_on(async { hc::send_using_client(client, &url, creds.as_ref().map(|(u, p)| (u.as_str(), p.as_str())), req).await });
        std::thread::sleep(Duration::from_millis(if call.transport == Transport::Ok { 0 } else { 5 }));
        let recorded = server.recorded.lock().unwrap().clone();
        let accepted = *server.accepted.lock().unwrap() - acc0;

        if violates {
            // (C07 oracle B, checked here because it is free) nothing may be sent
            if accepted != 0 || !recorded.is_empty() {
                fails.push(Fail { sig: "restricted-request-was-sent".into(), detail: format!("{accepted} connections, {} requests", recorded.len()) });
            }
            if !matches!(res, Err(SoapError::Restriction(_))) {
                fails.push(Fail { sig: "restricted-request-not-a-restriction-error".into(), detail: format!("{:?}", res.as_ref().map(|_| "Ok")) });
            }
            continue;
        }
        let expect_requests = if call.transport == Transport::Refused { 0 } else { 1 };
        if recorded.len() != expect_requests {
            fails.push(Fail { sig: format!("request-count:{}-instead-of-{}", recorded.len().min(3), expect_requests), detail: format!("transport {:?} status {}", call.transport, call.status) });
        }
        if let Some(r) = recorded.first() {
            if r.method != "POST" {
                fails.push(Fail { sig: "method-not-post".into(), detail: r.method.clone() });
            }
            if r.target != script.path {
                fails.push(Fail { sig: "wrong-request-target".into(), detail: format!("{} instead of {}", r.target, script.path) });
            }
            if r.body != expected_body.as_bytes() {
                fails.push(Fail { sig: "body-is-not-the-serialized-envelope".into(), detail: format!("{} bytes sent, {} expected; chunked={}", r.body.len(), expected_body.len(), r.headers.iter().any(|h| h.0 == "x-vh-chunked")) });
            }
            let auth: Vec<&String> = r.headers.iter().filter(|h| h.0 == "authorization").map(|h| &h.1).collect();
            match &script.credentials {
                None => {
                    if !auth.is_empty() {
                        fails.push(Fail { sig: "authorization-without-credentials".into(), detail: format!("{auth:?}") });
                    }
                }
                Some((u, p)) => {
                    let want = format!("Basic {}", base64::engine::general_purpose::STANDARD.encode(format!("{u}:{p}")));
                    if auth.len() != 1 || *auth[0] != want {
                        fails.push(Fail { sig: "authorization-missing-or-wrong".into(), detail: format!("got {auth:?}, want {want}") });
                    }
                }
            }
        }
        let ok_expected = call.transport == Transport::Ok && (200..300).contains(&call.status) && is_envelope(call.body);
        match (&res, ok_expected) {
            (Ok(v), true) => {
                let want = RespEnv { body: RespBody { pong: call.pong.clone() } };
                if *v != want {
                    fails.push(Fail { sig: "wrong-value-returned".into(), detail: format!("{v:?} instead of {want:?}") });
                }
            }
            (Err(e), true) => fails.push(Fail { sig: "error-for-successful-exchange".into(), detail: format!("{e} (status {}, body {:?})", call.status, call.body) }),
            (Ok(v), false) => {
                let why = if call.transport != Transport::Ok {
                    format!("transport-{:?}", call.transport)
                } else if !(200..300).contains(&call.status) {
                    format!("status-{}xx", call.status / 100)
                } else {
                    format!("body-{:?}", call.body)
                };
                fails.push(Fail { sig: format!("value-for-failed-exchange:{why}"), detail: format!("{v:?}") });
            }
            (Err(_), false) => {}
        }
    }
    fails
}

pub fn run(tier: Tier) -> i32 {
    let findings = Findings::load();
    findings.print_fixed("C16");
    let mut ev = Evidence::new(
        "C16",
        tier,
        "exploration",
        "proptest-generated scripts = call histories (1-4 calls on one client) x credentials (absent / arbitrary user and password text incl. ':' and non-ASCII) x URL path with optional query x per call: request value, reply status in {200,201,204,400,401,403,404,500,503}, reply body in {exact envelope, re-prefixed, default-namespace, empty, non-XML, truncated, other root, SOAP Fault, wrong-namespace Envelope}, transport in {ok, refused, closed before headers, closed after headers}; run through helpers::send_soap_request_using_client (compiled unmodified from /repo) against a raw-socket loopback server that records every request. Oracle per call: exactly one request (none when refused), POST, target = URL path+query, body byte-equal to the serialized envelope, Authorization: Basic base64(user:pass) iff credentials; Ok(v) iff transport ok and 2xx and envelope body, with v equal to the scripted value; otherwise Err. Requests violating a facet must yield the restriction error and zero connections. Pipeline path: for generated WSDL clients (24 quick / 300 thorough) every operation is called through the generated service method with configured credentials (incl. an empty user name and ':' in it) and a location overridden to the loopback listener, once answered 200 with a valid response envelope and once 500: exactly one POST to the configured path+query, body byte-equal to the serialized request, the Basic header of the configured credentials, Ok(value equal to the scripted one) for 200 and Err for 500. Non-trivial: script with a failing exchange or credentials; distinct by the whole script.",
    );
    ev.assume("proxy environment variables are ignored (client built with no_proxy); the server answers Connection: close, so every call uses a fresh connection");
    let wd = Watchdog::start("C16", 60);
    let rt = tokio::runtime::Builder::new_current_thread().enable_all().build().expect("tokio runtime");
    let server = Server::start();
    let n = tier.pick(1_200, 30_000);
    let mut runner = crate::common::runner("C16");
    let strat = arb_script();
    let mut reported = std::collections::BTreeSet::new();
    for i in 0..n {
        wd.tick();
        let mut tree = strat.new_tree(&mut runner).unwrap();
        let script = tree.current();
        let client = reqwest::Client::builder().no_proxy().build().expect("client");
        let failing = script.calls.iter().any(|c| c.transport != Transport::Ok || !(200..300).contains(&c.status) || !is_envelope(c.body));
        ev.case(&format!("{script:?}"), failing || script.credentials.is_some());
        for c in &script.calls {
            ev.class(&format!("status.{}", c.status));
            ev.class(&format!("body.{:?}", c.body));
            ev.class(&format!("transport.{:?}", c.transport));
        }
        if script.credentials.is_some() {
            ev.class("with-credentials");
        }
        if i < 2 {
            ev.sample(serde_json::to_value(&script).unwrap());
        }
        let fails = run_script(&script, &server, &rt, &client);
        for f in fails {
            let sig = format!("C16 {}", f.sig);
            if !reported.insert(sig.clone()) {
                ev.class("further-failing-calls");
                continue;
            }
            let want = f.sig.clone();
            let small = shrink(
                &mut tree,
                |s| {
                    let c = reqwest::Client::builder().no_proxy().build().unwrap();
                    run_script(s, &server, &rt, &c).iter().any(|x| x.sig == want)
                },
                60,
            );
            route_failure(&mut ev, &findings, "http-exchange", &sig, json!({"script": small, "detail": f.detail}));
        }
    }
    wd.stop();
    // pipeline path: generated clients forward client, location and credentials unchanged
    crate::soap::run_into(
        &mut ev,
        &findings,
        tier,
        &crate::soap::Cfg { id: "C16", aspect: crate::soap::Aspect::Exchange, rule: "", n_quick: 24, n_thorough: 300 },
    );
    ev.finish()
}

pub fn replay(case: &serde_json::Value) -> i32 {
    if case["wire_case"].is_object() {
        return crate::soap::replay("C16", crate::soap::Aspect::Exchange, case);
    }
    let script: Script = serde_json::from_value(case["script"].clone()).expect("C16 script");
    let rt = tokio::runtime::Builder::new_current_thread().enable_all().build().unwrap();
    let server = Server::start();
    let client = reqwest::Client::builder().no_proxy().build().unwrap();
    let fails = run_script(&script, &server, &rt, &client);
    for f in &fails {
        println!("{}: {}", f.sig, f.detail);
    }
    if fails.is_empty() {
        0
    } else {
        println!("VIOLATION property=C16 replay=(this file)");
        1
    }
}
