//! C09 — QName references resolve by namespace, independent of declaration order.
//!
//! Metamorphic pairs: every generated model is built twice from the same raw value, once with
//! colliding local names (same name in two namespaces, members/attributes named like global
//! components, elements named like types, re-used prefixes, default namespaces, permuted
//! declaration order) and once with all names distinct (the twin). The C02/C08 oracles run on
//! both; C09 is violated iff the colliding case shows a failure that the twin does not show.

use crate::c01::profile_for;
use crate::c02::{self, Failure};
use crate::common::*;
use crate::pipeline;
use crate::rustc::Externs;
use crate::sgen::{Profile, RawModel};
use rayon::prelude::*;
use serde_json::json;
use std::collections::BTreeSet;
use std::path::Path;

fn judge_pair(ex: &Externs, scratch: &Path, raw: &RawModel, profile: &Profile) -> (Vec<Failure>, Vec<Failure>) {
    let mut twin = profile.clone();
    twin.collide = false;
    twin.same_name_elem_and_type = false;
    twin.prefix_reuse = false;
    let a = c02::judge_raw(ex, scratch, raw, profile, None, Some(&c02::member_namespaces));
    if a.is_empty() {
        return (a, vec![]);
    }
    let b = c02::judge_raw(ex, scratch, raw, &twin, None, Some(&c02::member_namespaces));
    (a, b)
}

/// failures of the colliding case that count against C09 (the twin is clean)
fn c09_failures(pair: &(Vec<Failure>, Vec<Failure>)) -> Vec<Failure> {
    // a failure the twin shows in the same way is not caused by the collision
    pair.0.iter().filter(|f| !pair.1.iter().any(|t| t.sig == f.sig)).cloned().collect()
}

pub fn run(tier: Tier) -> i32 {
    let findings = Findings::load();
    findings.print_fixed("C09");
    let mut ev = Evidence::new(
        "C09",
        tier,
        "exploration",
        "collision profile of the supported-subset grammar: the same local name reused for struct-producing components of two namespaces (with different member sets), local elements and attributes named like global components, global elements named like their type, the same prefix bound to different namespaces in different files, default-namespace QNames, and permuted declaration order / file splits; references (type=, base=, ref=) are index-based in the model, so the expected binding is known. Each colliding case has a twin built from the same raw value with all names distinct. Oracle: the C02 member comparison + typed driver (rustc distinguishes g::mod_a::X from g::mod_b::X) + member-namespace check on both; violation iff the colliding case shows a failure that the twin does not show in the same way. Non-trivial: >= 1 name that exists in >= 2 namespaces or kinds; distinct by rendered file set.",
    );
    ev.assume("a failure that also shows on the twin belongs to C02/C08, not to C09, and is only counted here");
    let ex = match Externs::discover() {
        Ok(e) => e,
        Err(e) => {
            ev.inconclusive = Some(e);
            ev.evaluations = 1;
            return ev.finish();
        }
    };
    let (mut profile, gates) = profile_for(&findings, "C09");
    profile.wsdl = 0;
    profile.collide = true;
    profile.kind_mix = true;
    profile.xml_lang = 1;
    profile.seq_in_choice = true;
    profile.colliding_abbrev = true;
    profile.max_files = 4;
    ev.extra.insert("gates_masked".into(), json!(gates));
    let scratch = scratch_dir("c09");
    let n = tier.pick(500, 5000);
    let (cases, mut trees) = pipeline::generate(n, "C09", &profile);
    let pairs: Vec<(Vec<Failure>, Vec<Failure>)> = cases
        .par_iter()
        .enumerate()
        .map(|(i, c)| {
            let sub = scratch.join(format!("p{i}"));
            let _ = std::fs::create_dir_all(&sub);
            let r = judge_pair(&ex, &sub, &c.raw, &profile);
            let _ = std::fs::remove_dir_all(&sub);
            r
        })
        .collect();
    let mut reported = BTreeSet::new();
    for (i, case) in cases.iter().enumerate() {
        let collides = case.stats.features.iter().any(|f| f.starts_with("collision.") || f == "element.same-name-as-type");
        ev.case(&format!("{:?}", case.files), collides);
        pipeline::count_features(&mut ev, &case.stats);
        if i < 2 {
            ev.sample(json!({"files": case.files.files.iter().map(|f| (f.0.clone(), f.1.chars().take(500).collect::<String>())).collect::<Vec<_>>(), "collisions": case.stats.features.iter().filter(|f| f.starts_with("collision")).collect::<Vec<_>>()}));
        }
        if !pairs[i].0.is_empty() && !pairs[i].1.is_empty() {
            ev.class("fails-on-twin-too (not C09)");
        }
        for f in c09_failures(&pairs[i]) {
            let sig = format!("C09 {}", f.sig);
            if !reported.insert(sig.clone()) {
                ev.class("further-failing-pairs");
                continue;
            }
            let want = f.sig.clone();
            let small = shrink(&mut trees[i], |r| c09_failures(&judge_pair(&ex, &scratch, r, &profile)).iter().any(|x| x.sig == want), tier.pick(20, 60));
            let small_case = pipeline::make_case(small.clone(), &profile);
            route_failure(&mut ev, &findings, "reference-bound-to-wrong-component", &sig, json!({"raw": small, "profile": profile, "files": small_case.files, "detail": f.detail}));
        }
    }
    let _ = std::fs::remove_dir_all(&scratch);
    ev.finish()
}

pub fn replay(case: &serde_json::Value) -> i32 {
    let ex = Externs::discover().expect("externs");
    let scratch = scratch_dir("c09r");
    let raw: RawModel = serde_json::from_value(case["raw"].clone()).expect("raw model");
    let profile: Profile = serde_json::from_value(case["profile"].clone()).expect("profile");
    let pair = judge_pair(&ex, &scratch, &raw, &profile);
    let _ = std::fs::remove_dir_all(&scratch);
    let fails = c09_failures(&pair);
    for f in &pair.0 {
        println!("colliding: {}: {}", f.sig, f.detail);
    }
    for f in &pair.1 {
        println!("twin: {}: {}", f.sig, f.detail);
    }
    if fails.is_empty() {
        0
    } else {
        println!("VIOLATION property=C09 replay=(this file)");
        1
    }
}
