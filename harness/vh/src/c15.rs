//! C15 — output-sink failures are reported: no panic, no false success.
//!
//! Fault enumeration: for every document of the corpus, count the write calls N of an
//! unconstrained run, then inject a failure at every call index k (two modes: only at k /
//! from k on; error kinds rotated) and check the result of `write_xml`. Plus `Interrupted`
//! (must be retried transparently) and short-writing sinks (bytes must be identical).

use crate::common::*;
use crate::zeep::{self, FileSet, WriteOutcome};
use proptest::prelude::*;
use proptest::strategy::ValueTree;
use rayon::prelude::*;
use serde_json::json;
use std::io::{self, Write};

pub const MARK: &str = "vh-injected-fault";

#[derive(Clone, Copy, Debug, PartialEq, Eq, serde::Serialize, serde::Deserialize)]
pub enum Kind {
    Other,
    BrokenPipe,
    WriteZero, // the sink returns Ok(0)
    PermissionDenied,
    StorageFull,
}
pub const KINDS: [Kind; 5] = [Kind::Other, Kind::BrokenPipe, Kind::WriteZero, Kind::PermissionDenied, Kind::StorageFull];

#[derive(Clone, Copy, Debug, PartialEq, Eq, serde::Serialize, serde::Deserialize)]
pub enum Mode {
    OnlyAt, // fails at call k, later calls succeed
    From,   // dead sink from call k on
}

struct FaultSink {
    calls: usize,
    k: usize,
    mode: Mode,
    kind: Kind,
    interrupted_once: bool,
    bytes: Vec<u8>,
    /// accept at most this many bytes per call (0 = unlimited)
    chunk: Vec<usize>,
}

impl FaultSink {
    fn plain() -> Self {
        FaultSink { calls: 0, k: usize::MAX, mode: Mode::From, kind: Kind::Other, interrupted_once: false, bytes: vec![], chunk: vec![] }
    }
}

impl Write for FaultSink {
    fn write(&mut self, buf: &[u8]) -> io::Result<usize> {
        let i = self.calls;
        self.calls += 1;
        if self.interrupted_once && i == self.k {
            return Err(io::Error::new(io::ErrorKind::Interrupted, MARK));
        }
        let hit = !self.interrupted_once
            && match self.mode {
                Mode::OnlyAt => i == self.k,
                Mode::From => i >= self.k,
            };
        if hit {
            return match self.kind {
                Kind::Other => Err(io::Error::other(MARK)),
                Kind::BrokenPipe => Err(io::Error::new(io::ErrorKind::BrokenPipe, MARK)),
                Kind::WriteZero => Ok(0),
                Kind::PermissionDenied => Err(io::Error::new(io::ErrorKind::PermissionDenied, MARK)),
                Kind::StorageFull => Err(io::Error::new(io::ErrorKind::StorageFull, MARK)),
            };
        }
        let n = if self.chunk.is_empty() {
            buf.len()
        } else {
            let c = self.chunk[i % self.chunk.len()].max(1);
            c.min(buf.len())
        };
        self.bytes.extend_from_slice(&buf[..n]);
        Ok(n)
    }
    fn flush(&mut self) -> io::Result<()> {
        Ok(())
    }
}

fn mini_corpus() -> Vec<(String, FileSet)> {
    let xsd = r#"<?xml version="1.0"?>
<xs:schema xmlns:xs="http://www.w3.org/2001/XMLSchema" xmlns:tns="http://example.org/mini" targetNamespace="http://example.org/mini" elementFormDefault="qualified">
  <xs:simpleType name="Colour">
    <xs:annotation><xs:documentation>first line
second line
third line</xs:documentation></xs:annotation>
    <xs:restriction base="xs:string"><xs:enumeration value="red"/><xs:enumeration value="green"/><xs:maxLength value="5"/></xs:restriction>
  </xs:simpleType>
  <xs:simpleType name="Level"><xs:restriction base="xs:int"><xs:minInclusive value="1"/><xs:maxInclusive value="9"/></xs:restriction></xs:simpleType>
  <xs:complexType name="Item">
    <xs:annotation><xs:documentation>an item
with two doc lines</xs:documentation></xs:annotation>
    <xs:sequence>
      <xs:element name="name" type="xs:string"/>
      <xs:element name="colour" type="tns:Colour" minOccurs="0"/>
      <xs:element name="level" type="tns:Level" maxOccurs="unbounded"/>
    </xs:sequence>
    <xs:attribute name="id" type="xs:long" use="required"/>
  </xs:complexType>
  <xs:complexType name="Special"><xs:complexContent><xs:extension base="tns:Item"><xs:sequence><xs:element name="extra" type="xs:boolean"/></xs:sequence></xs:extension></xs:complexContent></xs:complexType>
  <xs:element name="item" type="tns:Item"/>
  <xs:element name="wrapper"><xs:complexType><xs:sequence><xs:element ref="tns:item"/></xs:sequence></xs:complexType></xs:element>
  <xs:element name="plain" type="xs:string"/>
</xs:schema>"#;
    let wsdl = r#"<?xml version="1.0"?>
<wsdl:definitions xmlns:wsdl="http://schemas.xmlsoap.org/wsdl/" xmlns:soap="http://schemas.xmlsoap.org/wsdl/soap/" xmlns:xs="http://www.w3.org/2001/XMLSchema" xmlns:tns="http://example.org/svc" targetNamespace="http://example.org/svc">
  <wsdl:types>
    <xs:schema targetNamespace="http://example.org/svc" elementFormDefault="qualified">
      <xs:element name="Ping"><xs:complexType><xs:annotation><xs:documentation>ping doc
line two</xs:documentation></xs:annotation><xs:sequence><xs:element name="text" type="xs:string"/></xs:sequence></xs:complexType></xs:element>
      <xs:element name="Pong"><xs:complexType><xs:sequence><xs:element name="text" type="xs:string" minOccurs="0"/></xs:sequence></xs:complexType></xs:element>
      <xs:element name="Auth"><xs:complexType><xs:sequence><xs:element name="token" type="xs:string"/></xs:sequence></xs:complexType></xs:element>
    </xs:schema>
  </wsdl:types>
  <wsdl:message name="PingIn"><wsdl:part name="body" element="tns:Ping"/><wsdl:part name="auth" element="tns:Auth"/></wsdl:message>
  <wsdl:message name="PingOut"><wsdl:part name="body" element="tns:Pong"/></wsdl:message>
  <wsdl:portType name="PingPort">
    <wsdl:operation name="Ping"><wsdl:input message="tns:PingIn"/><wsdl:output message="tns:PingOut"/></wsdl:operation>
  </wsdl:portType>
  <wsdl:binding name="PingBinding" type="tns:PingPort">
    <soap:binding style="document" transport="http://schemas.xmlsoap.org/soap/http"/>
    <wsdl:operation name="Ping">
      <soap:operation soapAction="http://example.org/svc/Ping"/>
      <wsdl:input><soap:header message="tns:PingIn" part="auth" use="literal"/><soap:body use="literal" parts="body"/></wsdl:input>
      <wsdl:output><soap:body use="literal" parts="body"/></wsdl:output>
    </wsdl:operation>
  </wsdl:binding>
  <wsdl:service name="PingService"><wsdl:port name="PingPort" binding="tns:PingBinding"><soap:address location="http://localhost:8080/ping"/></wsdl:port></wsdl:service>
</wsdl:definitions>"#;
    vec![
        ("mini/types.xsd".to_string(), FileSet::single("types.xsd", xsd)),
        ("mini/ping.wsdl".to_string(), FileSet::single("ping.wsdl", wsdl)),
    ]
}

#[derive(Clone, Debug, serde::Serialize, serde::Deserialize)]
pub struct FaultCase {
    pub doc: String,
    pub k: usize,
    pub mode: Mode,
    pub kind: Kind,
    pub interrupted: bool,
}

/// None = as required; Some(signature, detail) = failure
fn judge_fault(out: &WriteOutcome, sink: &FaultSink, reference: &[u8], interrupted: bool) -> Option<(String, String)> {
    if interrupted {
        return match out {
            WriteOutcome::Ok if sink.bytes == reference => None,
            WriteOutcome::Ok => Some(("interrupted:bytes-differ".into(), "output differs after a retried Interrupted".into())),
            WriteOutcome::Err { display, .. } => Some(("interrupted:reported-as-error".into(), display.clone())),
            WriteOutcome::Panic(p) => Some((format!("panic:{}", panic_site(p)), p.clone())),
        };
    }
    match out {
        WriteOutcome::Err { display, io_in_chain } => {
            if *io_in_chain || display.contains(MARK) || display.contains("failed to write whole buffer") {
                None
            } else {
                Some(("error-is-not-io".into(), display.clone()))
            }
        }
        WriteOutcome::Ok => Some(("false-success".into(), "write_xml returned Ok although a write call failed".into())),
        WriteOutcome::Panic(p) => Some((format!("panic:{}", panic_site(p)), p.clone())),
    }
}

/// `file:line` part of a recorded panic, with the /repo prefix stripped and the line dropped
/// (line numbers move with unrelated edits).
pub fn panic_site(p: &str) -> String {
    let site = p.rsplit(" @ ").next().unwrap_or("");
    let file = site.rsplit_once(':').map(|x| x.0).unwrap_or(site);
    file.rsplit("zeep-lib/").next().unwrap_or(file).to_string()
}

/// Text for documentation / enumeration values: lines of varied length with multi-byte
/// characters at arbitrary byte offsets (error paths that slice or measure the text they
/// were writing are only reached with such content).
fn arb_line() -> impl Strategy<Value = String> {
    prop_oneof![
        3 => "[a-zA-Z ,.]{0,30}[°éß😀→][a-zA-Z ]{0,60}",
        3 => "[a-zA-Z0-9 ,.°é😀]{0,120}",
        1 => "[a-z ]{35,45}[°😀é][a-z]{0,10}",
        1 => Just(String::new()),
    ]
}

#[derive(Clone, Debug, serde::Serialize, serde::Deserialize)]
pub struct DocSchema {
    pub simple: Vec<(Vec<String>, Vec<String>)>,      // (doc lines, enumeration values)
    pub complex: Vec<(Vec<String>, usize, bool)>,     // (doc lines, fields, has attribute)
    pub wsdl: bool,
}

fn arb_doc_schema() -> impl Strategy<Value = DocSchema> {
    (
        proptest::collection::vec((proptest::collection::vec(arb_line(), 0..4), proptest::collection::vec("[a-zé°😀0-9]{1,50}", 0..4)), 1..4),
        proptest::collection::vec((proptest::collection::vec(arb_line(), 0..4), 0usize..4, any::<bool>()), 1..4),
        any::<bool>(),
    )
        .prop_map(|(simple, complex, wsdl)| DocSchema { simple, complex, wsdl })
}

fn esc(s: &str) -> String {
    s.replace('&', "&amp;").replace('<', "&lt;").replace('"', "&quot;")
}

pub fn render_doc_schema(d: &DocSchema) -> FileSet {
    let ns = "http://example.org/docs";
    let mut body = String::new();
    let doc = |lines: &Vec<String>| {
        if lines.is_empty() {
            String::new()
        } else {
            format!("<xs:annotation><xs:documentation>{}</xs:documentation></xs:annotation>", esc(&lines.join("\n")))
        }
    };
    for (i, (lines, en)) in d.simple.iter().enumerate() {
        body += &format!("<xs:simpleType name=\"Simple{i}\">{}<xs:restriction base=\"xs:string\">", doc(lines));
        for e in en {
            body += &format!("<xs:enumeration value=\"{}\"/>", esc(e));
        }
        body += "<xs:maxLength value=\"60\"/></xs:restriction></xs:simpleType>\n";
    }
    for (i, (lines, nf, attr)) in d.complex.iter().enumerate() {
        body += &format!("<xs:complexType name=\"Complex{i}\">{}<xs:sequence>", doc(lines));
        for f in 0..*nf {
            body += &format!("<xs:element name=\"field{f}\" type=\"tns:Simple{}\" minOccurs=\"0\"/>", f % d.simple.len());
        }
        body += "</xs:sequence>";
        if *attr {
            body += "<xs:attribute name=\"id\" type=\"xs:int\"/>";
        }
        body += "</xs:complexType>\n";
    }
    if !d.wsdl {
        let xsd = format!("<?xml version=\"1.0\" encoding=\"UTF-8\"?>\n<xs:schema xmlns:xs=\"http://www.w3.org/2001/XMLSchema\" xmlns:tns=\"{ns}\" targetNamespace=\"{ns}\" elementFormDefault=\"qualified\">\n{body}</xs:schema>\n");
        return FileSet::single("docs.xsd", &xsd);
    }
    let wsdl = format!(
        "<?xml version=\"1.0\" encoding=\"UTF-8\"?>\n<wsdl:definitions xmlns:wsdl=\"http://schemas.xmlsoap.org/wsdl/\" xmlns:soap=\"http://schemas.xmlsoap.org/wsdl/soap/\" xmlns:xs=\"http://www.w3.org/2001/XMLSchema\" xmlns:tns=\"{ns}\" targetNamespace=\"{ns}\">\n<wsdl:types><xs:schema targetNamespace=\"{ns}\" elementFormDefault=\"qualified\">\n{body}<xs:element name=\"Req\" type=\"tns:Complex0\"/><xs:element name=\"Res\" type=\"tns:Complex0\"/><xs:element name=\"Hdr\" type=\"tns:Complex0\"/></xs:schema></wsdl:types>\n<wsdl:message name=\"In\"><wsdl:part name=\"body\" element=\"tns:Req\"/><wsdl:part name=\"hdr\" element=\"tns:Hdr\"/></wsdl:message><wsdl:message name=\"Out\"><wsdl:part name=\"body\" element=\"tns:Res\"/></wsdl:message>\n<wsdl:portType name=\"P\"><wsdl:operation name=\"Call\"><wsdl:input message=\"tns:In\"/><wsdl:output message=\"tns:Out\"/></wsdl:operation></wsdl:portType>\n<wsdl:binding name=\"B\" type=\"tns:P\"><soap:binding style=\"document\" transport=\"http://schemas.xmlsoap.org/soap/http\"/><wsdl:operation name=\"Call\"><soap:operation soapAction=\"http://example.org/docs/Call\"/><wsdl:input><soap:header message=\"tns:In\" part=\"hdr\" use=\"literal\"/><soap:body use=\"literal\" parts=\"body\"/></wsdl:input><wsdl:output><soap:body use=\"literal\"/></wsdl:output></wsdl:operation></wsdl:binding>\n<wsdl:service name=\"DocService\"><wsdl:port name=\"P\" binding=\"tns:B\"><soap:address location=\"http://localhost:1/docs\"/></wsdl:port></wsdl:service>\n</wsdl:definitions>\n"
    );
    FileSet::single("docs.wsdl", &wsdl)
}

fn generated_corpus(n: usize) -> Vec<(String, FileSet)> {
    let mut runner = crate::common::runner("C15-corpus");
    let strat = arb_doc_schema();
    (0..n)
        .map(|i| {
            let d = strat.new_tree(&mut runner).unwrap().current();
            (format!("generated/doc{i}"), render_doc_schema(&d))
        })
        .collect()
}

pub fn corpus_for(tier: Tier) -> Vec<(String, FileSet)> {
    let mut c = mini_corpus();
    c.extend(generated_corpus(tier.pick(40, 400)));
    c.extend(zeep::repo_corpus());
    c
}

pub fn corpus() -> Vec<(String, FileSet)> {
    // replay looks documents up by label; the thorough corpus is a superset of the quick one
    corpus_for(Tier::Thorough)
}

fn run_one(doc: &zeep::Doc, case: &FaultCase, reference: &[u8]) -> Option<(String, String)> {
    let mut sink = FaultSink { k: case.k, mode: case.mode, kind: case.kind, interrupted_once: case.interrupted, ..FaultSink::plain() };
    let out = doc(&mut sink);
    judge_fault(&out, &sink, reference, case.interrupted)
}

pub fn run(tier: Tier) -> i32 {
    zeep::install_panic_hook();
    let findings = Findings::load();
    findings.print_fixed("C15");
    let mut ev = Evidence::new(
        "C15",
        tier,
        "fault_enumeration",
        "documents = every schema/WSDL of the repository that reads successfully + hand-written sets hitting every emitter (doc comments, simple/complex/alias, envelopes with header, action fn, service) + proptest-generated schemas/WSDLs whose documentation lines and enumeration values have varied lengths and multi-byte characters at arbitrary offsets. For each: N = write calls of an unconstrained run; a fault is injected at call k for every k in 0..N (quick: all k when N <= 20000, else first/last 300 and every 37th) in two modes (only at k / from k on) with the error kind rotated over {Other, BrokenPipe, Ok(0), PermissionDenied, StorageFull} (all five kinds for the first and last 40 calls); Interrupted-once at k; short-writing sinks with proptest-chosen chunk patterns. Non-trivial: a fault at k >= 1 (after some output was accepted); distinct by (document, k, mode, kind).",
    );
    ev.assume("an error counts as an I/O error if an io::Error is in its source chain or its text carries the injected message");

    let corpus = corpus_for(tier);
    let mut all_failures: Vec<(String, String, FaultCase)> = vec![];
    let mut exhaustive_docs = 0u64;
    let mut total_docs = 0u64;
    for (label, fs) in &corpus {
        // unconstrained run
        let Ok(doc) = zeep::read(fs) else {
            ev.class("corpus.not-readable");
            continue;
        };
        let mut plain = FaultSink::plain();
        let out = doc(&mut plain);
        if out != WriteOutcome::Ok {
            ev.class("corpus.unconstrained-write-fails");
            continue;
        }
        drop(doc);
        total_docs += 1;
        let n = plain.calls;
        let reference = plain.bytes;
        let full = tier == Tier::Thorough || n <= 20_000;
        if full {
            exhaustive_docs += 1;
        }
        let ks: Vec<usize> = (0..n).filter(|k| full || *k < 300 || *k + 300 >= n || k % 37 == 0).collect();
        ev.class_n("fault-positions", ks.len() as u64);
        ev.sample(json!({"document": label, "write_calls": n, "bytes": reference.len(), "positions_enumerated": ks.len(), "all_positions": full}));

        // per-thread document (the document type is not Send)
        let chunks: Vec<Vec<usize>> = ks.chunks((ks.len() / 64).max(1)).map(|c| c.to_vec()).collect();
        let results: Vec<(u64, Vec<(String, String, FaultCase)>)> = chunks
            .par_iter()
            .map(|chunk| {
                zeep::install_panic_hook();
                let doc = zeep::read(fs).expect("re-read");
                // the reference bytes come from this very document object: until C12 holds, two
                // reads of the same input may order operations differently
                let mut own = FaultSink::plain();
                doc(&mut own);
                let reference = own.bytes;
                let mut evals = 0u64;
                let mut fails = vec![];
                for &k in chunk {
                    let edge = k < 40 || k + 40 >= n;
                    for mode in [Mode::OnlyAt, Mode::From] {
                        let kinds: Vec<Kind> = if edge { KINDS.to_vec() } else { vec![KINDS[k % 5]] };
                        for kind in kinds {
                            let case = FaultCase { doc: label.clone(), k, mode, kind, interrupted: false };
                            evals += 1;
                            if let Some((sig, detail)) = run_one(&doc, &case, &reference) {
                                fails.push((sig, detail, case));
                            }
                        }
                    }
                    // Interrupted once: sampled (every 5th k, all near the edges)
                    if edge || k % 5 == 0 {
                        let case = FaultCase { doc: label.clone(), k, mode: Mode::OnlyAt, kind: Kind::Other, interrupted: true };
                        evals += 1;
                        if let Some((sig, detail)) = run_one(&doc, &case, &reference) {
                            fails.push((sig, detail, case));
                        }
                    }
                }
                (evals, fails)
            })
            .collect();
        for (evals, fails) in results {
            ev.evaluations += evals;
            all_failures.extend(fails);
        }
        // non-trivial distinct: every enumerated (doc,k>=1) position counts once per mode
        for &k in &ks {
            if k >= 1 {
                ev.case_h(hash64(&format!("{label}#{k}")), true);
                ev.evaluations -= 1; // case_h counted one; evaluations are counted by the workers
            }
        }

        // short-writing sinks
        let doc = zeep::read(fs).expect("re-read");
        let mut own = FaultSink::plain();
        doc(&mut own);
        let reference = own.bytes;
        let mut runner = crate::common::runner(&format!("C15-short-{label}"));
        let strat = proptest::collection::vec(1usize..64, 1..6);
        let rounds = tier.pick(3, 12);
        let mut patterns: Vec<Vec<usize>> = vec![vec![1]];
        for _ in 0..rounds {
            patterns.push(strat.new_tree(&mut runner).unwrap().current());
        }
        if reference.len() > 2_000_000 {
            patterns.retain(|p| p.iter().sum::<usize>() / p.len() >= 8); // 1-byte chunks on multi-MB documents cost minutes
        }
        for p in patterns {
            let mut sink = FaultSink { chunk: p.clone(), ..FaultSink::plain() };
            let out = doc(&mut sink);
            ev.evaluations += 1;
            ev.class("short-write-runs");
            if out != WriteOutcome::Ok || sink.bytes != reference {
                let sig = if out == WriteOutcome::Ok { "short-write:bytes-differ".to_string() } else { "short-write:not-ok".to_string() };
                all_failures.push((sig, format!("{out:?} chunk pattern {p:?}"), FaultCase { doc: label.clone(), k: 0, mode: Mode::From, kind: Kind::Other, interrupted: false }));
            }
        }
    }
    ev.exhaustive = Some(exhaustive_docs == total_docs);
    ev.extra.insert("documents".into(), json!(total_docs));
    ev.extra.insert("documents_with_all_positions".into(), json!(exhaustive_docs));

    // one report per signature, smallest k first
    all_failures.sort_by(|a, b| (a.0.clone(), a.2.k).cmp(&(b.0.clone(), b.2.k)));
    let mut seen = std::collections::BTreeSet::new();
    for (sig, detail, case) in all_failures {
        let sig = format!("C15 {sig}");
        if !seen.insert(sig.clone()) {
            ev.class("further-failing-positions");
            continue;
        }
        route_failure(&mut ev, &findings, "sink-fault", &sig, json!({"fault": case, "detail": detail}));
    }
    if total_docs < 10 {
        ev.inconclusive = Some(format!("only {total_docs} corpus documents could be read"));
    }
    ev.finish()
}

pub fn replay(case: &serde_json::Value) -> i32 {
    zeep::install_panic_hook();
    let fc: FaultCase = serde_json::from_value(case["fault"].clone()).expect("C15 replay case");
    let Some((_, fs)) = corpus().into_iter().find(|(l, _)| *l == fc.doc) else {
        eprintln!("document {} not in corpus", fc.doc);
        return 2;
    };
    let doc = zeep::read(&fs).expect("read");
    let mut plain = FaultSink::plain();
    doc(&mut plain);
    let r = run_one(&doc, &fc, &plain.bytes);
    println!("fault {fc:?} -> {r:?}");
    if r.is_some() {
        println!("VIOLATION property=C15 replay=(this file)");
        1
    } else {
        0
    }
}
