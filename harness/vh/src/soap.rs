//! SOAP engine shared by C05 (envelopes, methods, address), C07 (facets enforced before sending),
//! C16 pipeline path (generated methods forward client, location, credentials) and C18 (Send).

use crate::c01::profile_for;
use crate::c02::Failure;
use crate::common::*;
use crate::drv::{self, Built, Probe};
use crate::expect;
use crate::model::*;
use crate::outscan::{self, Scan};
use crate::pipeline::{self, Case};
use crate::rustc::{self, Externs};
use crate::sgen::Profile;
use crate::values::{self, Gen, Layout, StructV, Surface, Tape, XElem};
use crate::wire::{WireCase, arb_case};
use crate::worker::Outcome;
use base64::Engine;
use proptest::strategy::{Strategy, ValueTree};
use rayon::prelude::*;
use serde_json::json;
use std::collections::BTreeSet;
use std::io::{Read, Write};
use std::net::TcpListener;
use std::path::Path;
use std::sync::{Arc, Mutex};
use std::time::Duration;

pub const SOAPENV: &str = "http://schemas.xmlsoap.org/soap/envelope/";

#[derive(Clone, Copy, PartialEq, Eq, Debug)]
pub enum Aspect {
    /// C05: envelope types, serialized requests, deserialized responses, one method per operation, address
    Envelopes,
    /// C07: planted facet violations: check fails, restriction error, no connection
    Restrictions,
    /// C16 pipeline: one POST with the serialized envelope, credentials forwarded, status handling
    Exchange,
    /// C18: futures and envelopes are Send (+Sync)
    Send,
    /// C03: request and response envelopes are serialized and compared with the expected infoset
    EnvelopesSer,
}

pub struct EnvExpect {
    pub op: usize,
    pub is_input: bool,
    pub ty: String,     // OpInputEnvelope
    pub body_ty: String,
    pub header_ty: Option<String>,
    pub body_elem: QRef,
    pub header_elems: Vec<(String /*part name*/, QRef)>,
}

pub fn envelopes(m: &Model, w: &Wsdl) -> Vec<EnvExpect> {
    let mut out = vec![];
    for (oi, op) in w.operations.iter().enumerate() {
        let base = op.name.pascal();
        for (is_input, d) in [(true, Some(&op.input)), (false, op.output.as_ref())] {
            let Some(d) = d else { continue };
            let msg = &w.messages[d.message];
            let ty = format!("{base}{}Envelope", if is_input { "Input" } else { "Output" });
            out.push(EnvExpect {
                op: oi,
                is_input,
                body_ty: format!("{ty}Body"),
                header_ty: if d.headers.is_empty() { None } else { Some(format!("{ty}Header")) },
                ty,
                body_elem: msg.parts[d.body_part].element,
                header_elems: d.headers.iter().map(|h| (msg.parts[*h].name.xml(), msg.parts[*h].element)).collect(),
            });
        }
    }
    let _ = m;
    out
}

fn root_struct<'a>(scan: &'a Scan, ident: &str) -> Vec<&'a outscan::OStruct> {
    scan.structs.iter().filter(|s| s.module.is_empty() && s.ident == ident).collect()
}

pub struct EnvValue {
    pub expr: String,
    pub want: XElem,
    pub violated: Option<String>,
    pub ty: String,
}

/// value of one envelope: Rust expression in the generated types + expected document
pub fn envelope_value(m: &Model, scan: &Scan, lay: &Layout, e: &EnvExpect, t: &mut Tape, plant: bool) -> Result<EnvValue, Failure> {
    let fail = |sig: &str, detail: String| Failure { sig: sig.to_string(), detail, q: None };
    let env = root_struct(scan, &e.ty);
    let body = root_struct(scan, &e.body_ty);
    if env.len() != 1 || body.len() != 1 {
        return Err(fail("envelope-type-missing-or-duplicated", format!("{} x{}, {} x{}", e.ty, env.len(), e.body_ty, body.len())));
    }
    let mut g = Gen::new(m);
    if plant {
        g.violate_at = Some(t.below(4));
    }
    let elem_value = |g: &mut Gen, q: QRef, t: &mut Tape| -> Option<(StructV, String, String)> {
        let target = expect::resolve_struct(m, q)?;
        let v = match &m.comp(target).kind {
            CompKind::Simple(_) => g.simple_value(target, t),
            _ => g.struct_value(target, t, 0)?,
        };
        Some((v, m.files[q.file].ns.clone(), m.comp(q).name.xml()))
    };
    // body: the one field of the Body struct
    let bf = body[0].fields.first().ok_or_else(|| fail("envelope-body-has-no-member", e.body_ty.clone()))?;
    if body[0].fields.len() != 1 {
        return Err(fail("envelope-body-member-count", format!("{}: {} members", e.body_ty, body[0].fields.len())));
    }
    let (bv, bns, bname) = elem_value(&mut g, e.body_elem, t).ok_or_else(|| fail("no-value-for-body-element", String::new()))?;
    let body_expr = format!("g::{} {{ {}: {} }}", e.body_ty, bf.ident, values::rust_expr(&g, lay, &bv));
    let mut want_children = vec![];
    let mut header_expr = None;
    if let Some(hty) = &e.header_ty {
        let hs = root_struct(scan, hty);
        if hs.len() != 1 {
            return Err(fail("envelope-header-type-missing", hty.clone()));
        }
        if hs[0].fields.len() != e.header_elems.len() {
            return Err(fail("envelope-header-member-count", format!("{hty}: {} members for {} header parts", hs[0].fields.len(), e.header_elems.len())));
        }
        let mut parts = vec![];
        let mut hchildren = vec![];
        for (k, (_part, q)) in e.header_elems.iter().enumerate() {
            let f = &hs[0].fields[k];
            // header entries are optional members: present or absent
            if t.below(4) == 0 {
                parts.push(format!("{}: None", f.ident));
                continue;
            }
            let (hv, hns, hname) = elem_value(&mut g, *q, t).ok_or_else(|| fail("no-value-for-header-element", String::new()))?;
            parts.push(format!("{}: Some({})", f.ident, values::rust_expr(&g, lay, &hv)));
            hchildren.push(values::infoset(&g, &hv, &hns, &hname));
        }
        header_expr = Some(format!("g::{hty} {{ {} }}", parts.join(", ")));
        want_children.push(XElem { ns: SOAPENV.into(), local: "Header".into(), attrs: vec![], children: hchildren, text: None });
    }
    want_children.push(XElem { ns: SOAPENV.into(), local: "Body".into(), attrs: vec![], children: vec![values::infoset(&g, &bv, &bns, &bname)], text: None });
    // envelope literal: complete (header iff expected, body)
    let hfield = env[0].fields.iter().find(|f| f.ya.rename.as_deref() == Some("Header"));
    let bfield = env[0].fields.iter().find(|f| f.ya.rename.as_deref() == Some("Body")).ok_or_else(|| fail("envelope-has-no-body-member", e.ty.clone()))?;
    let expr = match (&header_expr, hfield) {
        (Some(h), Some(hf)) => format!("g::{} {{ {}: {h}, {}: {body_expr} }}", e.ty, hf.ident, bfield.ident),
        (None, None) => format!("g::{} {{ {}: {body_expr} }}", e.ty, bfield.ident),
        (Some(_), None) => return Err(fail("envelope-has-no-header-member", e.ty.clone())),
        (None, Some(_)) => return Err(fail("envelope-has-unexpected-header-member", e.ty.clone())),
    };
    Ok(EnvValue { expr, want: XElem { ns: SOAPENV.into(), local: "Envelope".into(), attrs: vec![], children: want_children, text: None }, violated: g.violated.clone(), ty: format!("g::{}", e.ty) })
}

// ---- loopback server (one scripted reply per connection) -----------------------------------------

#[derive(Clone, Debug, Default)]
pub struct Recorded {
    pub method: String,
    pub target: String,
    pub headers: Vec<(String, String)>,
    pub body: Vec<u8>,
}

pub struct Loopback {
    pub port: u16,
    pub replies: Arc<Mutex<std::collections::VecDeque<(u16, String)>>>,
    pub recorded: Arc<Mutex<Vec<Recorded>>>,
    pub accepted: Arc<Mutex<usize>>,
}

impl Loopback {
    pub fn start_on(port: u16) -> Option<Loopback> {
        let listener = TcpListener::bind(("127.0.0.1", port)).ok()?;
        let port = listener.local_addr().ok()?.port();
        let replies: Arc<Mutex<std::collections::VecDeque<(u16, String)>>> = Arc::new(Mutex::new(Default::default()));
        let recorded = Arc::new(Mutex::new(Vec::new()));
        let accepted = Arc::new(Mutex::new(0usize));
        let (rp, rc, ac) = (replies.clone(), recorded.clone(), accepted.clone());
        std::thread::spawn(move || {
            for conn in listener.incoming() {
                let Ok(mut s) = conn else { continue };
                *ac.lock().unwrap() += 1;
                let _ = s.set_read_timeout(Some(Duration::from_secs(5)));
                let mut buf = Vec::new();
                let mut tmp = [0u8; 8192];
                let mut head_end = None;
                while head_end.is_none() {
                    match s.read(&mut tmp) {
                        Ok(0) | Err(_) => break,
                        Ok(n) => {
                            buf.extend_from_slice(&tmp[..n]);
                            head_end = buf.windows(4).position(|w| w == b"\r\n\r\n").map(|p| p + 4);
                        }
                    }
                }
                let Some(he) = head_end else { continue };
                let head = String::from_utf8_lossy(&buf[..he]).to_string();
                let mut lines = head.split("\r\n");
                let rl: Vec<&str> = lines.next().unwrap_or("").split(' ').collect();
                let mut rec = Recorded { method: rl.first().unwrap_or(&"").to_string(), target: rl.get(1).unwrap_or(&"").to_string(), ..Default::default() };
                let mut clen = 0usize;
                for l in lines {
                    if let Some((k, v)) = l.split_once(':') {
                        let k = k.trim().to_ascii_lowercase();
                        if k == "content-length" {
                            clen = v.trim().parse().unwrap_or(0);
                        }
                        rec.headers.push((k, v.trim().to_string()));
                    }
                }
                let mut body = buf[he..].to_vec();
                while body.len() < clen {
                    match s.read(&mut tmp) {
                        Ok(0) | Err(_) => break,
                        Ok(n) => body.extend_from_slice(&tmp[..n]),
                    }
                }
                rec.body = body;
                rc.lock().unwrap().push(rec);
                let (status, text) = rp.lock().unwrap().pop_front().unwrap_or((500, String::new()));
                let _ = write!(s, "HTTP/1.1 {status} X\r\nContent-Type: text/xml; charset=utf-8\r\nContent-Length: {}\r\nConnection: close\r\n\r\n", text.len());
                let _ = s.write_all(text.as_bytes());
                let _ = s.flush();
                let _ = s.shutdown(std::net::Shutdown::Both);
            }
        });
        Some(Loopback { port, replies, recorded, accepted })
    }
}

// ---- judging one WSDL case -----------------------------------------------------------------------

const DRIVER_ITEMS: &str = r#"
fn rt() -> tokio::runtime::Runtime { tokio::runtime::Builder::new_current_thread().enable_all().build().unwrap() }
fn harness_url() -> String { std::env::var("VH_URL").unwrap_or_default() }
/// the location the generated constructor chose, moved to the harness's listener: everything after
/// scheme://authority (path and query) stays as generated
fn rebased(location: &str) -> String {
    let rest = location.splitn(4, '/').nth(3).map(|r| format!("/{r}")).unwrap_or_default();
    format!("http://127.0.0.1:{}{rest}", std::env::var("VH_PORT").unwrap_or_default())
}
fn err_class(e: &g::error::SoapError) -> String {
    match e {
        g::error::SoapError::Restriction(m) => format!("Restriction:{m}"),
        g::error::SoapError::Http(m) => format!("Http:{m}"),
        g::error::SoapError::YaserdeError(m) => format!("Yaserde:{m}"),
    }
}
"#;

pub fn send_assertions(m: &Model, w: &Wsdl, scan: &Scan) -> String {
    let svc = w.service.xml();
    let mut s = String::from("#[allow(warnings)]\nmod c18 {\nuse super::g;\nfn assert_send<T: Send>(_: T) {}\nfn assert_send_sync<T: Send + Sync>() {}\n");
    for op in &w.operations {
        let base = op.name.pascal();
        let method = crate::expect::field_ident(&op.name);
        s += &format!("fn m_{0}(svc: &'static g::{svc}, req: g::{base}InputEnvelope) {{ assert_send(svc.{method}(req)); }}\n", op.name.snake());
        s += &format!("fn e_{}() {{ assert_send_sync::<g::{base}InputEnvelope>();", op.name.snake());
        if op.output.is_some() {
            s += &format!(" assert_send_sync::<g::{base}OutputEnvelope>();");
        }
        s += &format!(" assert_send_sync::<g::multi_ref::MultiRef<g::{base}InputEnvelope>>();");
        s += " }\n";
        // the free-standing function of the operation: whatever top-level async fn takes this
        // operation's request envelope (its name is not fixed by any property)
        for f in scan.fns.iter().filter(|f| f.owner.is_none() && f.is_async && f.public && f.inputs.first().is_some_and(|t| *t == format!("{base}InputEnvelope"))) {
            s += &format!("fn f_{0}_{1}(req: g::{base}InputEnvelope) {{ assert_send(g::{1}(req, None)); }}\n", op.name.snake(), f.ident);
        }
        s += &format!(
            "fn s_{0}(svc: std::sync::Arc<g::{svc}>, req: g::{base}InputEnvelope) {{ let rt = tokio::runtime::Builder::new_multi_thread().build().unwrap(); let _h = rt.spawn(async move {{ svc.{method}(req).await }}); }}\n",
            op.name.snake()
        );
    }
    s += "}\n";
    let _ = m;
    s
}

pub fn judge_emitted(ex: &Externs, dir: &Path, case: &Case, out: &Outcome, tape: &[u16], aspect: Aspect) -> (Vec<Failure>, usize) {
    let Some(w) = &case.model.wsdl else { return (vec![], 0) };
    let m = &case.model;
    let text = match out {
        Outcome::Ok { output, .. } => output,
        Outcome::ReadErr { msg, .. } | Outcome::WriteErr { msg, .. } => {
            let class: String = msg.split(':').take(2).collect::<Vec<_>>().join(":").chars().take(60).collect();
            return (vec![Failure { sig: format!("rejected:{class}"), detail: msg.clone(), q: None }], 0);
        }
        o => return (vec![Failure { sig: format!("generator-crashed:{}", o.class()), detail: String::new(), q: None }], 0),
    };
    if aspect != Aspect::Send && crate::wire::unsatisfiable(m) {
        // a derived simple type whose facets contradict its ancestors' has no valid value at all
        return (vec![], 0);
    }
    let scan = match outscan::scan(text) {
        Ok(s) => s,
        Err(e) => return (vec![Failure { sig: "uncompilable-output:does-not-parse".into(), detail: e, q: None }], 0),
    };
    let mut fails: Vec<Failure> = vec![];
    let mut push = |fails: &mut Vec<Failure>, sig: String, detail: String| {
        if !fails.iter().any(|f| f.sig == sig) {
            fails.push(Failure { sig, detail, q: None });
        }
    };
    let svc = w.service.xml();

    if aspect == Aspect::Send {
        // compile-only: the emitted file plus the Send assertions
        let c = pipeline::compile_output(ex, dir, text, &send_assertions(m, w, &scan));
        if !c.ok && !c.timed_out {
            let in_assertions = c.errors.iter().filter(|d| d.primary().is_some_and(|s| s.file_name.ends_with("lib.rs"))).collect::<Vec<_>>();
            if let Some(d) = in_assertions.first() {
                push(&mut fails, format!("not-send:{}", d.normalised()), d.message.clone());
            } else {
                push(&mut fails, format!("uncompilable-output:{}", c.errors.first().map(|d| d.normalised()).unwrap_or_default()), c.raw_tail.clone());
            }
        }
        return (fails, w.operations.len());
    }

    // static: exactly one async method per operation on the service type, besides `new`
    if aspect == Aspect::Envelopes {
        let methods: Vec<&outscan::OFn> = scan.fns.iter().filter(|f| f.owner.as_deref() == Some(svc.as_str())).collect();
        if methods.is_empty() {
            push(&mut fails, "service-type-missing".into(), format!("no impl block for {svc}"));
        }
        for op in &w.operations {
            let want = crate::expect::field_ident(&op.name);
            let n = methods.iter().filter(|f| f.ident == want && f.is_async && f.public && f.has_receiver).count();
            if n != 1 {
                push(&mut fails, format!("method-count:{}", n.min(2)), format!("{svc}::{want} x{n}"));
            }
        }
        let extra: Vec<&str> = methods.iter().filter(|f| f.ident != "new" && !w.operations.iter().any(|op| crate::expect::field_ident(&op.name) == f.ident)).map(|f| f.ident.as_str()).collect();
        if !extra.is_empty() {
            push(&mut fails, "undeclared-method-added".into(), format!("{extra:?}"));
        }
    }
    let lay = match Layout::discover(m, &scan) {
        Ok(l) => l,
        Err(f) => return (vec![Failure { sig: format!("struct-layout:{}", f.sig), detail: f.detail, q: f.q }], 0),
    };
    let envs = envelopes(m, w);
    let mut t = Tape { data: tape, pos: 0 };
    let mut probes: Vec<Probe> = vec![];
    let mut meta: Vec<(String, usize, Option<EnvValue>)> = vec![]; // (what, op, value)
    let surfaces = [Surface::RootPrefixes, Surface::DefaultNs, Surface::Pretty];
    let mut replies: Vec<(u16, String)> = vec![];
    let user_pool = ["alice", "", "bob:x", "üser"];
    let creds_user = user_pool[t.below(user_pool.len())].to_string();
    let creds_pass = ["secret", "", "p:ss wörd"][t.below(3)].to_string();
    for e in &envs {
        let op = &w.operations[e.op];
        let method = crate::expect::field_ident(&op.name);
        let plant = aspect == Aspect::Restrictions;
        for round in 0..2 {
            let ev = match envelope_value(m, &scan, &lay, e, &mut t, plant && round == 1) {
                Ok(v) => v,
                Err(f) => {
                    push(&mut fails, f.sig, f.detail);
                    continue;
                }
            };
            match aspect {
                Aspect::EnvelopesSer => {
                    // C03: every envelope, request or response, is a generated type that is serialized
                    probes.push(Probe::Ser { expr: ev.expr.clone() });
                    meta.push(("ser".into(), e.op, Some(ev)));
                }
                Aspect::Envelopes => {
                    if e.is_input {
                        probes.push(Probe::Ser { expr: ev.expr.clone() });
                        meta.push(("ser".into(), e.op, Some(ev)));
                    } else {
                        probes.push(Probe::Dbg { expr: ev.expr.clone() });
                        meta.push(("dbg".into(), e.op, None));
                        for sf in surfaces {
                            probes.push(Probe::De { ty: ev.ty.clone(), xml: values::render_instance(&ev.want, sf) });
                            meta.push(("de".into(), e.op, None));
                        }
                        meta.last_mut().unwrap().2 = Some(ev);
                    }
                }
                Aspect::Restrictions => {
                    if !e.is_input {
                        continue;
                    }
                    probes.push(Probe::Chk { expr: ev.expr.clone() });
                    meta.push(("chk".into(), e.op, Some(EnvValue { expr: ev.expr.clone(), want: ev.want.clone(), violated: ev.violated.clone(), ty: ev.ty.clone() })));
                    // transmission: a call with this request (its serialization identifies it in the
                    // listener's record)
                    probes.push(Probe::Ser { expr: ev.expr.clone() });
                    meta.push(("req-ser".into(), e.op, None));
                    let ret = if op.output.is_some() { "Ok(_) => emit(n, \"call\", true, \"ok\", \"\")," } else { "Ok(()) => emit(n, \"call\", true, \"ok\", \"\")," };
                    probes.push(Probe::Raw {
                        code: format!(
                            "    let mut svc = g::{svc}::new(None);\n    svc.location = harness_url();\n    let req = {};\n    match rt().block_on(svc.{method}(req)) {{\n        {ret}\n        Err(e) => emit(n, \"call\", false, &err_class(&e), \"\"),\n    }}\n",
                            ev.expr
                        ),
                    });
                    meta.push(("call".into(), e.op, Some(ev)));
                }
                Aspect::Exchange => {
                    if !e.is_input || round == 1 {
                        continue;
                    }
                    // the reply: a valid output envelope (when the operation has an output), then a 500
                    let out_env = envs.iter().find(|x| x.op == e.op && !x.is_input);
                    let reply = match out_env {
                        Some(oe) => match envelope_value(m, &scan, &lay, oe, &mut t, false) {
                            Ok(v) => Some(v),
                            Err(f) => {
                                push(&mut fails, f.sig, f.detail);
                                None
                            }
                        },
                        None => None,
                    };
                    let reply_xml = reply.as_ref().map(|r| values::render_instance(&r.want, Surface::DefaultNs)).unwrap_or_default();
                    probes.push(Probe::Ser { expr: ev.expr.clone() });
                    meta.push(("req-ser".into(), e.op, None));
                    if let Some(r) = &reply {
                        probes.push(Probe::Dbg { expr: r.expr.clone() });
                        meta.push(("reply-dbg".into(), e.op, None));
                    }
                    for status in [200u16, 500] {
                        replies.push((status, reply_xml.clone()));
                        // the successful call goes to the address the constructor took from the WSDL port
                        // (host and port replaced by the listener's), the failing one to a location set
                        // by the caller
                        let loc = if status == 200 { "rebased(&svc.location)" } else { "harness_url()" };
                        let okarm = if op.output.is_some() { "Ok(v) => emit(n, \"call\", true, \"ok\", &format!(\"{v:?}\"))," } else { "Ok(()) => emit(n, \"call\", true, \"ok\", \"()\")," };
                        probes.push(Probe::Raw {
                            code: format!(
                                "    let mut svc = g::{svc}::new(Some(({:?}.to_string(), {:?}.to_string())));\n    svc.location = {loc};\n    let req = {};\n    match rt().block_on(svc.{method}(req)) {{\n        {okarm}\n        Err(e) => emit(n, \"call\", false, &err_class(&e), \"\"),\n    }}\n",
                                creds_user, creds_pass, ev.expr
                            ),
                        });
                        meta.push((format!("call-{status}"), e.op, None));
                    }
                }
                Aspect::Send => {}
            }
        }
    }
    if aspect == Aspect::Envelopes {
        // address: the constructor's location is the WSDL port address
        probes.push(Probe::Raw { code: format!("    let svc = g::{svc}::new(None);\n    emit(n, \"loc\", true, &svc.location, \"\");\n") });
        meta.push(("loc".into(), 0, None));
        // method signatures: argument and future output types
        let mut sigs = String::new();
        for op in &w.operations {
            let base = op.name.pascal();
            let method = crate::expect::field_ident(&op.name);
            let ret = if op.output.is_some() { format!("g::{base}OutputEnvelope") } else { "()".to_string() };
            sigs += &format!("fn sig_{0}<'a>(s: &'a g::{svc}, r: g::{base}InputEnvelope) -> impl std::future::Future<Output = g::error::SoapResult<{ret}>> + 'a {{ s.{method}(r) }}\n", op.name.snake());
        }
        probes.push(Probe::Raw { code: "    emit(n, \"sigs\", true, \"\", \"\");\n".to_string() });
        meta.push(("sigs".into(), 0, None));
        return finish(ex, dir, text, probes, meta, &format!("{DRIVER_ITEMS}{sigs}"), fails, w, None, vec![], ("".into(), "".into()));
    }
    if aspect == Aspect::Restrictions {
        // oracle A on bare struct roots as well (every complex type, not only envelope payloads)
        let bdir = dir.join("bare");
        let _ = std::fs::create_dir_all(&bdir);
        let (bf, _, _) = crate::wire::judge_emitted(ex, &bdir, case, out, tape, crate::wire::Mode::Restrict);
        for f in bf {
            push(&mut fails, format!("bare-struct:{}", f.sig), f.detail);
        }
    }
    let lb = Loopback::start_on(0);
    let Some(lb) = lb else { return (vec![Failure { sig: "harness:no-loopback".into(), detail: String::new(), q: None }], 0) };
    finish(ex, dir, text, probes, meta, DRIVER_ITEMS, fails, w, Some(lb), replies, (creds_user, creds_pass))
}

#[allow(clippy::too_many_arguments)]
fn finish(
    ex: &Externs,
    dir: &Path,
    text: &str,
    probes: Vec<Probe>,
    meta: Vec<(String, usize, Option<EnvValue>)>,
    items: &str,
    mut fails: Vec<Failure>,
    w: &Wsdl,
    lb: Option<Loopback>,
    replies: Vec<(u16, String)>,
    creds: (String, String),
) -> (Vec<Failure>, usize) {
    let mut push = |fails: &mut Vec<Failure>, sig: String, detail: String| {
        if !fails.iter().any(|f| f.sig == sig) {
            fails.push(Failure { sig, detail, q: None });
        }
    };
    match drv::build(ex, dir, text, &probes, items) {
        Built::Ok => {}
        Built::CompileError(c) => {
            let first = c.errors.first();
            let in_driver = first.and_then(|d| d.primary()).is_some_and(|s| s.file_name.ends_with("main.rs"));
            let sig = if in_driver { format!("client-does-not-typecheck:{}", first.map(|d| d.normalised()).unwrap_or_default()) } else { format!("uncompilable-output:{}", first.map(|d| d.normalised()).unwrap_or_default()) };
            push(&mut fails, sig, first.map(|d| d.message.clone()).unwrap_or(c.raw_tail));
            return (fails, 0);
        }
    }
    let mut env = vec![];
    if let Some(lb) = &lb {
        env.push(("VH_URL", format!("http://127.0.0.1:{}/harness/endpoint?x=1", lb.port)));
        env.push(("VH_PORT", lb.port.to_string()));
        *lb.replies.lock().unwrap() = replies.into_iter().collect();
    }
    let answers = drv::run(dir, probes.len(), 10, &env);
    let recorded: Vec<Recorded> = lb.as_ref().map(|l| l.recorded.lock().unwrap().clone()).unwrap_or_default();
    let mut rec_i = 0usize;
    let mut last_dbg: Option<String> = None;
    let mut last_req_ser: Option<String> = None;
    let mut last_reply_dbg: Option<String> = None;
    for (pi, (what, opi, val)) in meta.iter().enumerate() {
        let a = &answers[pi];
        let opname = w.operations.get(*opi).map(|o| o.name.xml()).unwrap_or_default();
        if a.missing {
            push(&mut fails, format!("{what}:{}", if a.hung { "hang" } else { "driver-died" }), format!("probe {pi} ({opname})"));
            continue;
        }
        match what.as_str() {
            "ser" => {
                let v = val.as_ref().unwrap();
                if !a.ok {
                    push(&mut fails, "request-envelope:serialization-error".into(), a.text.clone());
                } else {
                    match roxmltree::Document::parse(&a.text) {
                        Err(e) => push(&mut fails, "request-envelope:not-namespace-well-formed".into(), format!("{e}: {}", a.text.chars().take(300).collect::<String>())),
                        Ok(doc) => {
                            if let Some((k, d)) = values::compare(doc.root_element(), &v.want, true, "") {
                                push(&mut fails, format!("request-envelope:{k}"), format!("{d} || {}", a.text.chars().take(400).collect::<String>()));
                            }
                        }
                    }
                }
            }
            "dbg" => last_dbg = Some(a.dbg.clone()),
            "de" => {
                if !a.ok {
                    push(&mut fails, format!("response-envelope:deserialization-error:{}", crate::wire::error_class_pub(&a.text)), a.text.clone());
                } else if last_dbg.as_ref().is_some_and(|d| *d != a.dbg) {
                    push(&mut fails, "response-envelope:value-differs".into(), format!("got {} want {}", a.dbg.chars().take(300).collect::<String>(), last_dbg.clone().unwrap_or_default().chars().take(300).collect::<String>()));
                }
            }
            "loc" => {
                let ok = match (url::Url::parse(&a.text), url::Url::parse(&w.address)) {
                    (Ok(x), Ok(y)) => x == y,
                    _ => a.text == w.address,
                };
                if !ok {
                    push(&mut fails, "service-location-differs-from-port-address".into(), format!("{} vs {}", a.text, w.address));
                }
            }
            "chk" => {
                let v = val.as_ref().unwrap();
                let expect_err = v.violated.is_some();
                if a.ok != expect_err {
                    push(&mut fails, format!("check:{}", if expect_err { "violation-not-detected" } else { "conforming-request-rejected" }), format!("planted {:?}; check says {:?}", v.violated, a.text));
                }
            }
            "call" => {
                // C07 oracle B: restriction error and no connection for a violating request; one request otherwise
                let v = val.as_ref().unwrap();
                // was exactly this request seen by the listener?
                let sent = last_req_ser.as_ref().is_some_and(|body| recorded.iter().any(|r| r.body == body.as_bytes()));
                let _ = rec_i;
                if v.violated.is_some() {
                    if a.ok || !a.text.starts_with("Restriction:") {
                        push(&mut fails, "send:violating-request-did-not-return-the-restriction-error".into(), format!("{} ({:?})", a.text, v.violated));
                    }
                    if sent {
                        push(&mut fails, "send:violating-request-was-transmitted".into(), format!("planted {:?}; result {}", v.violated, a.text));
                    }
                } else if a.text.starts_with("Restriction:") {
                    push(&mut fails, "send:conforming-request-rejected".into(), a.text.clone());
                } else if !sent {
                    push(&mut fails, "send:conforming-request-not-transmitted".into(), a.text.clone());
                }
            }
            "req-ser" => last_req_ser = Some(a.text.clone()),
            "reply-dbg" => last_reply_dbg = Some(a.dbg.clone()),
            "call-200" | "call-500" => {
                let status_ok = what == "call-200";
                let rec = recorded.get(rec_i);
                rec_i += 1;
                match rec {
                    None => push(&mut fails, "exchange:no-request-reached-the-configured-location".into(), format!("{opname}: {}", a.text)),
                    Some(r) => {
                        if r.method != "POST" {
                            push(&mut fails, "exchange:method-not-post".into(), r.method.clone());
                        }
                        // 200: path and query of the WSDL port address; 500: the location the caller set
                        let want_target = if status_ok {
                            url::Url::parse(&w.address).map(|u| format!("{}{}", u.path(), u.query().map(|q| format!("?{q}")).unwrap_or_default())).unwrap_or_default()
                        } else {
                            "/harness/endpoint?x=1".to_string()
                        };
                        if r.target != want_target {
                            push(&mut fails, "exchange:wrong-request-target".into(), format!("{} (the port address is {}, expected target {want_target})", r.target, w.address));
                        }
                        if last_req_ser.as_ref().is_some_and(|s| s.as_bytes() != r.body.as_slice()) {
                            push(&mut fails, "exchange:body-is-not-the-serialized-envelope".into(), format!("{} bytes vs {}", r.body.len(), last_req_ser.as_ref().map(|s| s.len()).unwrap_or(0)));
                        }
                        let want = format!("Basic {}", base64::engine::general_purpose::STANDARD.encode(format!("{}:{}", creds.0, creds.1)));
                        let auth: Vec<&String> = r.headers.iter().filter(|h| h.0 == "authorization").map(|h| &h.1).collect();
                        if auth.len() != 1 || *auth[0] != want {
                            push(&mut fails, "exchange:configured-credentials-not-forwarded".into(), format!("user {:?}: got {auth:?}", creds.0));
                        }
                    }
                }
                let has_output = w.operations[*opi].output.is_some();
                if status_ok {
                    if !a.ok {
                        // derived-simple flatten limits etc. show up in C04/C05; here only the classes
                        push(&mut fails, format!("exchange:error-for-2xx-with-valid-envelope:{}", a.text.split(':').next().unwrap_or("")), a.text.clone());
                    } else if has_output && last_reply_dbg.as_ref().is_some_and(|d| *d != a.dbg) {
                        push(&mut fails, "exchange:wrong-value-returned".into(), String::new());
                    }
                } else if a.ok {
                    push(&mut fails, "exchange:value-for-5xx".into(), a.dbg.clone());
                }
            }
            _ => {}
        }
    }
    (fails, probes.len())
}

pub struct Cfg<'a> {
    pub id: &'a str,
    pub aspect: Aspect,
    pub rule: &'a str,
    pub n_quick: usize,
    pub n_thorough: usize,
}

pub fn judge_case(ex: &Externs, dir: &Path, wc: &WireCase, profile: &Profile, aspect: Aspect) -> (Vec<Failure>, usize) {
    let case = pipeline::make_case(wc.raw.clone(), profile);
    let out = crate::worker::run_single(&case.files);
    judge_emitted(ex, dir, &case, &out, &wc.tape, aspect)
}

pub fn run_with(tier: Tier, cfg: &Cfg) -> i32 {
    let findings = Findings::load();
    findings.print_fixed(cfg.id);
    let mut ev = Evidence::new(cfg.id, tier, "exploration", cfg.rule);
    run_into(&mut ev, &findings, tier, cfg);
    ev.finish()
}

/// The engine proper; adds its cases, classes and failures to an existing evidence record.
pub fn run_into(ev: &mut Evidence, findings: &Findings, tier: Tier, cfg: &Cfg) {
    let ex = match Externs::discover() {
        Ok(e) => e,
        Err(e) => {
            ev.inconclusive = Some(e);
            ev.evaluations += 1;
            return;
        }
    };
    let (mut profile, gates) = profile_for(findings, cfg.id);
    profile.wsdl = 2;
    profile.restrict_bias = cfg.aspect == Aspect::Restrictions;
    profile.keyword_names = false;
    profile.max_files = 3;
    ev.extra.insert("gates_masked".into(), json!(gates));
    let scratch = scratch_dir(&cfg.id.to_lowercase());
    let n = tier.pick(cfg.n_quick, cfg.n_thorough);
    let mut runner = crate::common::runner(cfg.id);
    let strat = arb_case(profile.max_files);
    let mut trees = vec![];
    let mut wcs = vec![];
    for _ in 0..n {
        let t = strat.new_tree(&mut runner).unwrap();
        wcs.push(t.current());
        trees.push(t);
    }
    let cases: Vec<Case> = wcs.iter().map(|w| pipeline::make_case(w.raw.clone(), &profile)).collect();
    let outs = pipeline::emit_all(&cases);
    let results: Vec<(Vec<Failure>, usize)> = cases
        .par_iter()
        .enumerate()
        .map(|(i, c)| {
            let dir = pipeline::case_dir(&scratch, i);
            let r = judge_emitted(&ex, &dir, c, &outs[i], &wcs[i].tape, cfg.aspect);
            let _ = std::fs::remove_dir_all(&dir);
            r
        })
        .collect();
    let mut reported = BTreeSet::new();
    let mut judged = 0usize;
    let mut probes_total = 0u64;
    for (i, case) in cases.iter().enumerate() {
        let (fails, np) = &results[i];
        let Some(w) = &case.model.wsdl else {
            ev.class("no-wsdl-could-be-built");
            continue;
        };
        let f = &case.stats.features;
        let nt = w.operations.len() >= 2 || f.contains("wsdl.header") || f.contains("wsdl.part-in-imported-namespace") || f.contains("wsdl.one-way");
        ev.case(&format!("{:?}|{:?}", case.files, &wcs[i].tape[..8.min(wcs[i].tape.len())]), nt);
        pipeline::count_features(ev, &case.stats);
        probes_total += *np as u64;
        if *np > 0 || !fails.is_empty() {
            judged += 1;
        }
        if i < 2 {
            ev.sample(json!({"wsdl": case.files.files[0].1.chars().take(1200).collect::<String>(), "operations": w.operations.iter().map(|o| o.name.xml()).collect::<Vec<_>>()}));
        }
        for fl in fails {
            let sig = format!("{} {}", cfg.id, fl.sig);
            if !reported.insert(sig.clone()) {
                ev.class("further-failing-cases");
                continue;
            }
            let want = fl.sig.clone();
            let sdir = scratch.join("shrink");
            let small = shrink(
                &mut trees[i],
                |wc| {
                    let _ = std::fs::create_dir_all(&sdir);
                    judge_case(&ex, &sdir, wc, &profile, cfg.aspect).0.iter().any(|x| x.sig == want)
                },
                tier.pick(12, 40),
            );
            let small_case = pipeline::make_case(small.raw.clone(), &profile);
            route_failure(ev, findings, "soap", &sig, json!({"wire_case": small, "profile": profile, "files": small_case.files, "detail": fl.detail, "aspect": format!("{:?}", cfg.aspect)}));
        }
    }
    ev.extra.insert("probes_run".into(), json!(probes_total));
    if judged * 2 < cases.len() {
        ev.inconclusive = Some(format!("only {judged} of {} cases could be judged", cases.len()));
    }
    let _ = std::fs::remove_dir_all(&scratch);
}

pub fn replay(id: &str, aspect: Aspect, case: &serde_json::Value) -> i32 {
    let ex = Externs::discover().expect("externs");
    let scratch = scratch_dir("soap-r");
    let wc: WireCase = serde_json::from_value(case["wire_case"].clone()).expect("wire case");
    let profile: Profile = serde_json::from_value(case["profile"].clone()).expect("profile");
    let (fails, n) = judge_case(&ex, &scratch, &wc, &profile, aspect);
    let _ = std::fs::remove_dir_all(&scratch);
    println!("{n} probes");
    for f in &fails {
        println!("{}: {}", f.sig, f.detail);
    }
    if fails.is_empty() {
        0
    } else {
        println!("VIOLATION property={id} replay=(this file)");
        1
    }
}
