//! C10 — namespace to prefix/module assignment is injective and stable in one output.
//!
//! Adversarial namespace URIs (equal last segments, equal three-letter abbreviations, dots,
//! dashes, URNs, trailing slash, digit-leading segments, long collision ladders) x where the
//! namespace is first met (root xmlns, nested xmlns, targetNamespace of an imported file) x
//! import order; the output is read with syn and only what the statement says is asserted.

use crate::common::*;
use crate::outscan::{self, Scan};
use crate::worker::{self, Outcome};
use crate::zeep::FileSet;
use proptest::prelude::*;
use proptest::strategy::ValueTree;
use serde_json::json;
use std::collections::{BTreeMap, BTreeSet};

pub const URI_POOL: [&str; 36] = [
    "http://example.org/v1/types",
    "http://example.org/v2/types",
    "http://example.org/v3/types",
    "http://example.com/schemas/typ",
    "http://example.com/schemas/type",
    "http://example.com/schemas/typing",
    "http://schemas.example.org/2006/messages",
    "http://schemas.example.org/2006/mes",
    "http://schemas.example.org/2007/messages",
    "urn:example:types",
    "urn:example:typ",
    "urn:other:types",
    "http://example.org/a.b.c",
    "http://example.org/ab.c",
    "http://example.org/abc",
    "http://example.org/x-abc",
    "http://example.org/y-abc",
    "http://example.org/abc-",
    "http://example.org/ns/",
    "http://example.org/other/",
    "http://example.org/2006/01",
    "http://example.org/2006/01/",
    "http://example.org/2024",
    "http://example.org/A",
    "http://example.org/a",
    "http://example.org/TYP",
    "http://example.org/Typ",
    "http://example.org/soapenv",
    "http://example.org/ty",
    "http://example.org/é/typ",
    // abbreviate to the reserved prefix `xml`
    "http://example.org/xml",
    "http://example.org/XMLTypes",
    "http://example.org/data/xmlmsg",
    // other standards' namespaces, close to the well-known ones
    "http://www.w3.org/2005/08/addressing",
    "http://www.w3.org/2001/XMLSchema-datatypes",
    "http://www.w3.org/2000/09/xmldsig#",
];

#[derive(Clone, Debug, serde::Serialize, serde::Deserialize)]
pub struct NFile {
    pub uri: usize,          // index into URI_POOL
    pub imports: Vec<usize>, // file indices
    pub decl: u8,            // 0 root xmlns, 1 nested xmlns on the component, 2 mixed
    pub extra_decls: Vec<usize>, // further URIs declared (never imported) on the root
    pub own_first: bool,
    /// the file declares no prefix for its own namespace (it is only met as targetNamespace)
    #[serde(default)]
    pub no_own_prefix: bool,
    /// files whose namespace is imported WITHOUT a schemaLocation and used as a member type; only
    /// rendered when that file is loaded anyway through located imports from the start file
    #[serde(default)]
    pub soft: Vec<usize>,
}

#[derive(Clone, Debug, serde::Serialize, serde::Deserialize)]
pub struct NCase {
    pub files: Vec<NFile>,
    pub wsdl: bool,
    /// ladder: this many extra URIs that all abbreviate alike are declared on the start file
    pub ladder: usize,
}

fn arb_case() -> impl Strategy<Value = NCase> {
    (1usize..=6).prop_flat_map(|n| {
        let f = (0usize..URI_POOL.len(), proptest::collection::vec(0usize..n, 0..4), 0u8..3, proptest::collection::vec(0usize..URI_POOL.len(), 0..3), any::<bool>(), prop_oneof![2 => Just(false), 1 => Just(true)], proptest::collection::vec(0usize..n, 0..3))
            .prop_map(|(uri, imports, decl, extra_decls, own_first, no_own_prefix, soft)| NFile { uri, imports, decl, extra_decls, own_first, no_own_prefix, soft });
        (proptest::collection::vec(f, n), any::<bool>(), prop_oneof![9 => Just(0usize), 1 => 2usize..14]).prop_map(|(files, wsdl, ladder)| NCase { files, wsdl, ladder })
    })
}

fn fname(i: usize) -> String {
    if i == 0 { "start.xsd".into() } else { format!("n{i}.xsd") }
}

fn esc(s: &str) -> String {
    s.replace('&', "&amp;").replace('"', "&quot;")
}

/// files loaded through located imports from the start file
fn located_reach(c: &NCase) -> BTreeSet<usize> {
    let mut seen = BTreeSet::from([0usize]);
    let mut todo = vec![0usize];
    while let Some(i) = todo.pop() {
        for j in &c.files[i].imports {
            if *j < c.files.len() && URI_POOL[c.files[*j].uri] != URI_POOL[c.files[i].uri] && seen.insert(*j) {
                todo.push(*j);
            }
        }
    }
    seen
}

pub fn render(c: &NCase) -> FileSet {
    let mut files = vec![];
    let loaded = located_reach(c);
    for (i, f) in c.files.iter().enumerate() {
        let own = URI_POOL[f.uri];
        let mut imports: Vec<usize> = vec![];
        for j in &f.imports {
            if *j != i && !imports.contains(j) && URI_POOL[c.files[*j].uri] != own {
                imports.push(*j);
            }
        }
        // namespaces imported without a location: another import path loads their file
        let mut soft: Vec<usize> = vec![];
        for j in &f.soft {
            let uj = URI_POOL[c.files[*j].uri];
            let unique_uri = c.files.iter().filter(|x| URI_POOL[x.uri] == uj).count() == 1;
            if *j != i && uj != own && !imports.contains(j) && !soft.contains(j) && loaded.contains(j) && loaded.contains(&i) && unique_uri {
                soft.push(*j);
            }
        }
        // prefixes: own = tns, imported = p<j>, extra = x<k>
        let mut root = String::new();
        let mut nested = String::new();
        // the WSDL wrapper needs the prefix for its message parts
        let no_own = f.no_own_prefix && !(i == 0 && c.wsdl);
        let own_decl = if no_own { String::new() } else { format!(" xmlns:tns=\"{}\"", esc(own)) };
        let mut others = String::new();
        for (k, j) in imports.iter().enumerate() {
            let d = format!(" xmlns:p{j}=\"{}\"", esc(URI_POOL[c.files[*j].uri]));
            match f.decl {
                0 => others += &d,
                1 => nested += &d,
                _ => {
                    if k % 2 == 0 {
                        others += &d
                    } else {
                        nested += &d
                    }
                }
            }
        }
        for j in &soft {
            others += &format!(" xmlns:q{j}=\"{}\"", esc(URI_POOL[c.files[*j].uri]));
        }
        for (k, u) in f.extra_decls.iter().enumerate() {
            if URI_POOL[*u] != own {
                others += &format!(" xmlns:x{k}=\"{}\"", esc(URI_POOL[*u]));
            }
        }
        if i == 0 {
            for k in 0..c.ladder {
                others += &format!(" xmlns:l{k}=\"http://example.org/ladder{k}/typ\"");
            }
        }
        if f.own_first {
            root += &own_decl;
            root += &others;
        } else {
            root += &others;
            root += &own_decl;
        }
        let mut body = String::new();
        for j in &imports {
            body += &format!("    <xs:import namespace=\"{}\" schemaLocation=\"{}\"/>\n", esc(URI_POOL[c.files[*j].uri]), fname(*j));
        }
        for j in &soft {
            body += &format!("    <xs:import namespace=\"{}\"/>\n", esc(URI_POOL[c.files[*j].uri]));
        }
        let mut members = String::from("<xs:element name=\"own\" type=\"xs:string\"/>");
        for j in &soft {
            members += &format!("<xs:element name=\"s{j}\" type=\"q{j}:T{j}\" minOccurs=\"0\"/>");
        }
        if !no_own {
            // references through the file's own prefix (type= and ref=)
            members += &format!("<xs:element ref=\"tns:L{i}\" minOccurs=\"0\"/><xs:element name=\"leaf\" type=\"tns:S{i}\" minOccurs=\"0\"/>");
        }
        for j in &imports {
            members += &format!("<xs:element name=\"m{j}\" type=\"p{j}:T{j}\" minOccurs=\"0\"/>");
        }
        body += &format!("    <xs:complexType name=\"T{i}\"{nested}><xs:sequence>{members}</xs:sequence></xs:complexType>\n");
        body += &format!("    <xs:element name=\"L{i}\"><xs:complexType><xs:sequence><xs:element name=\"w\" type=\"xs:int\"/></xs:sequence><xs:attribute name=\"a{i}\" type=\"xs:string\"/></xs:complexType></xs:element>\n    <xs:simpleType name=\"S{i}\"><xs:restriction base=\"xs:string\"><xs:maxLength value=\"9\"/></xs:restriction></xs:simpleType>\n");
        // a type derived from each imported type that has only attributes of its own
        for j in &imports {
            body += &format!("    <xs:complexType name=\"D{i}x{j}\"><xs:complexContent><xs:extension base=\"p{j}:A{j}\"><xs:attribute name=\"extra\" type=\"xs:string\"/></xs:extension></xs:complexContent></xs:complexType>\n");
        }
        // a base whose only members are of builtin types: what derives from it in another file has
        // no member of a user-defined type from this namespace, yet needs its prefix
        body += &format!("    <xs:complexType name=\"A{i}\"><xs:sequence><xs:element name=\"v{i}\" type=\"xs:string\" minOccurs=\"0\"/></xs:sequence><xs:attribute name=\"id{i}\" type=\"xs:string\"/></xs:complexType>\n");
        let own_member_type = if no_own { "xs:string".to_string() } else { format!("tns:T{i}") };
        body += &format!("    <xs:element name=\"E{i}\"><xs:complexType><xs:sequence><xs:element name=\"v\" type=\"{own_member_type}\"/></xs:sequence></xs:complexType></xs:element>\n");
        let schema = format!("<xs:schema xmlns:xs=\"http://www.w3.org/2001/XMLSchema\"{root} targetNamespace=\"{}\" elementFormDefault=\"qualified\">\n{body}  </xs:schema>", esc(own));
        if i == 0 && c.wsdl {
            let schema_in = schema.replacen(&root, "", 1);
            let w = format!(
                "<?xml version=\"1.0\"?>\n<wsdl:definitions xmlns:wsdl=\"http://schemas.xmlsoap.org/wsdl/\" xmlns:soap=\"http://schemas.xmlsoap.org/wsdl/soap/\" xmlns:xs=\"http://www.w3.org/2001/XMLSchema\"{root} targetNamespace=\"{0}\">\n  <wsdl:types>\n  {schema_in}\n  </wsdl:types>\n  <wsdl:message name=\"In\"><wsdl:part name=\"body\" element=\"tns:E0\"/></wsdl:message>\n  <wsdl:message name=\"Out\"><wsdl:part name=\"body\" element=\"tns:E0\"/></wsdl:message>\n  <wsdl:portType name=\"P\"><wsdl:operation name=\"Call\"><wsdl:input message=\"tns:In\"/><wsdl:output message=\"tns:Out\"/></wsdl:operation></wsdl:portType>\n  <wsdl:binding name=\"B\" type=\"tns:P\"><soap:binding style=\"document\" transport=\"http://schemas.xmlsoap.org/soap/http\"/><wsdl:operation name=\"Call\"><soap:operation soapAction=\"http://example.org/Call\"/><wsdl:input><soap:body use=\"literal\"/></wsdl:input><wsdl:output><soap:body use=\"literal\"/></wsdl:output></wsdl:operation></wsdl:binding>\n  <wsdl:service name=\"Svc\"><wsdl:port name=\"P\" binding=\"tns:B\"><soap:address location=\"http://localhost:1/x\"/></wsdl:port></wsdl:service>\n</wsdl:definitions>\n",
                esc(own)
            );
            files.push((fname(i), w));
        } else {
            files.push((fname(i), format!("<?xml version=\"1.0\"?>\n{schema}\n")));
        }
    }
    FileSet { start: fname(0), files }
}

/// three-letter abbreviation as zeep derives it; used only to CLASSIFY cases, never as oracle
fn abbrev(uri: &str) -> String {
    let last = uri.split('/').next_back().unwrap_or(uri);
    let last = last.split('-').next_back().unwrap_or(last);
    last.chars().filter(|c| *c != '.').take(3).collect::<String>().to_lowercase()
}

pub struct Fail {
    pub sig: String,
    pub detail: String,
}

pub fn judge(scan: &Scan) -> Vec<Fail> {
    let mut fails = vec![];
    // (1) no two modules with the same name
    let mut seen = BTreeSet::new();
    for m in &scan.modules {
        if m.len() == 1 && !seen.insert(m[0].clone()) {
            fails.push(Fail { sig: "duplicate-module".into(), detail: format!("pub mod {} is declared twice", m[0]) });
        }
    }
    // (2) prefix <-> URI over every namespaces map of the file
    let mut p2u: BTreeMap<String, BTreeSet<String>> = BTreeMap::new();
    let mut u2p: BTreeMap<String, BTreeSet<String>> = BTreeMap::new();
    for s in &scan.structs {
        for (p, u) in &s.ya.namespaces {
            p2u.entry(p.clone()).or_default().insert(u.clone());
            u2p.entry(u.clone()).or_default().insert(p.clone());
        }
    }
    for (p, us) in &p2u {
        if us.len() > 1 {
            fails.push(Fail { sig: "one-prefix-two-uris".into(), detail: format!("prefix {p:?} is declared for {us:?}") });
        }
    }
    for (u, ps) in &u2p {
        if ps.len() > 1 {
            fails.push(Fail { sig: "one-uri-two-prefixes".into(), detail: format!("{u} is declared with prefixes {ps:?}") });
        }
    }
    // (3) URI -> module is a function, module -> URI too (structs inside modules, by their own prefix)
    let mut mod2uri: BTreeMap<String, BTreeSet<String>> = BTreeMap::new();
    let mut uri2mod: BTreeMap<String, BTreeSet<String>> = BTreeMap::new();
    for s in &scan.structs {
        if s.module.is_empty() || ["error", "helpers", "restrictions", "multi_ref"].contains(&s.module[0].as_str()) {
            continue;
        }
        if let Some(p) = &s.ya.prefix {
            if let Some((_, u)) = s.ya.namespaces.iter().find(|(k, _)| k == p) {
                mod2uri.entry(s.module.join("::")).or_default().insert(u.clone());
                uri2mod.entry(u.clone()).or_default().insert(s.module.join("::"));
            } else {
                fails.push(Fail { sig: "struct-prefix-undeclared-on-struct".into(), detail: format!("{}: prefix {p:?} not in its own namespaces map", s.ident) });
            }
        }
    }
    for (m, us) in &mod2uri {
        if us.len() > 1 {
            fails.push(Fail { sig: "one-module-two-uris".into(), detail: format!("{m} holds structs of {us:?}") });
        }
    }
    for (u, ms) in &uri2mod {
        if ms.len() > 1 {
            fails.push(Fail { sig: "one-uri-two-modules".into(), detail: format!("{u} is spread over {ms:?}") });
        }
    }
    // (4) every prefix used by a field or an envelope is declared: somewhere in the file, and on the
    // struct that uses it (any struct may be the root of a serialized document)
    for s in &scan.structs {
        let mut used: Vec<&String> = s.fields.iter().filter_map(|f| f.ya.prefix.as_ref()).collect();
        if let Some(p) = &s.ya.prefix {
            used.push(p);
        }
        for p in used {
            // `xml` is bound to the XML namespace by definition and needs no declaration
            if p == "xml" && !p2u.contains_key(p) {
                continue;
            }
            if !p2u.contains_key(p) {
                fails.push(Fail { sig: "prefix-used-but-never-declared".into(), detail: format!("{}: {p:?}", s.ident) });
            } else if !s.ya.namespaces.iter().any(|(k, _)| k == p) {
                fails.push(Fail { sig: "prefix-used-but-not-declared-on-the-struct".into(), detail: format!("{}: {p:?} (declared elsewhere as {:?})", s.ident, p2u.get(p)) });
            }
        }
    }
    // (5) all components of a namespace sit in its module: a member typed mod_x::Name must find Name in mod_x
    let mut defined: BTreeSet<(String, String)> = BTreeSet::new();
    for s in &scan.structs {
        defined.insert((s.module.join("::"), s.ident.clone()));
    }
    for (m, n, _) in &scan.aliases {
        defined.insert((m.join("::"), n.clone()));
    }
    for s in &scan.structs {
        for f in &s.fields {
            let t = f.ty.trim_start_matches("Option<").trim_start_matches("Vec<").trim_end_matches('>');
            if let Some((module, name)) = t.rsplit_once("::") {
                if module.starts_with("mod_") && !defined.contains(&(module.to_string(), name.to_string())) {
                    fails.push(Fail { sig: "member-type-not-in-the-module-it-names".into(), detail: format!("{}.{}: {}", s.ident, f.ident, f.ty) });
                }
            }
        }
    }
    fails
}

pub fn run(tier: Tier) -> i32 {
    let findings = Findings::load();
    findings.print_fixed("C10");
    let mut ev = Evidence::new(
        "C10",
        tier,
        "exploration",
        "1-6 files whose target namespaces are drawn from an adversarial URI pool (equal last segments /v1/types /v2/types, equal three-letter abbreviations typ/type/typing, dots, dashes, URNs, trailing slash, digit-leading segments, case variants, non-ASCII) with further URIs declared but not imported, prefixes declared on the schema root or on the component node, own prefix before or after the foreign ones, any import relation between the files (cycles included), namespaces imported without a schemaLocation whose file is loaded through another import path (before or after), reserved-looking and other standards' URIs (xml..., www.w3.org), optional WSDL wrapper, and collision ladders of up to 13 equally abbreviating URIs; every file has a type whose members are typed by the imported files' types. The output is parsed with syn: no two pub mod of one name; the relation prefix<->URI built from all namespaces maps is a bijection; URI<->module is a bijection over the structs in namespace modules; every prefix used by a field or an envelope is declared somewhere in the file. Non-trivial: >= 2 URIs whose zeep-style abbreviations coincide, or >= 2 files; distinct by rendered file set.",
    );
    ev.assume("whether a declaration is visible where yaserde needs it and whether a prefix is an NCName are wire-level facts judged by C03/C04");
    let n = tier.pick(3000, 60_000);
    let mut runner = crate::common::runner("C10");
    let strat = arb_case();
    let mut trees = vec![];
    let mut cases = vec![];
    for _ in 0..n {
        let t = strat.new_tree(&mut runner).unwrap();
        cases.push(t.current());
        trees.push(t);
    }
    // fixed ladders (thorough: a 260-URI ladder as well)
    let mut fixed: Vec<NCase> = vec![NCase { files: vec![NFile { uri: 0, imports: vec![], decl: 0, extra_decls: (0..URI_POOL.len()).collect(), own_first: false, no_own_prefix: false, soft: vec![] }], wsdl: true, ladder: 13 }];
    if tier == Tier::Thorough {
        fixed.push(NCase { files: vec![NFile { uri: 3, imports: vec![], decl: 0, extra_decls: vec![], own_first: true, no_own_prefix: false, soft: vec![] }], wsdl: false, ladder: 260 });
    }
    cases.extend(fixed);
    let sets: Vec<FileSet> = cases.iter().map(render).collect();
    let outs = worker::run_all(&sets, 16);
    let mut reported = BTreeSet::new();
    let mut rejected = 0usize;
    for (i, c) in cases.iter().enumerate() {
        let abbrs: Vec<String> = c.files.iter().map(|f| abbrev(URI_POOL[f.uri])).collect();
        let distinct_uris: BTreeSet<usize> = c.files.iter().map(|f| f.uri).collect();
        let coincide = {
            let mut by: BTreeMap<&String, BTreeSet<usize>> = BTreeMap::new();
            for (k, f) in c.files.iter().enumerate() {
                by.entry(&abbrs[k]).or_default().insert(f.uri);
            }
            by.values().any(|s| s.len() >= 2) || c.ladder > 0 || c.files.iter().any(|f| !f.extra_decls.is_empty())
        };
        ev.case(&format!("{:?}", sets[i]), coincide || c.files.len() >= 2);
        if coincide {
            ev.class("abbreviations-coincide");
        }
        if c.files.len() >= 2 {
            ev.class("files>=2");
        }
        if distinct_uris.len() < c.files.len() {
            ev.class("namespace-split-over-files");
        }
        if c.wsdl {
            ev.class("wsdl");
        }
        if c.ladder > 0 {
            ev.class("ladder");
        }
        if i < 2 {
            ev.sample(json!({"uris": c.files.iter().map(|f| URI_POOL[f.uri]).collect::<Vec<_>>(), "case": c}));
        }
        let text = match &outs[i] {
            Outcome::Ok { output, .. } => output,
            Outcome::ReadErr { .. } | Outcome::WriteErr { .. } => {
                rejected += 1;
                ev.class("outcome.rejected");
                continue;
            }
            o => {
                let sig = format!("C10 generator-crashed:{}", o.class());
                if reported.insert(sig.clone()) {
                    route_failure(&mut ev, &findings, "namespace-assignment", &sig, json!({"case": c, "files": sets[i]}));
                }
                continue;
            }
        };
        let scan = match outscan::scan(text) {
            Ok(s) => s,
            Err(e) => {
                // an output that is not Rust cannot be judged here; C01/C14 report it
                ev.class("outcome.output-does-not-parse");
                let _ = e;
                continue;
            }
        };
        for f in judge(&scan) {
            let sig = format!("C10 {}", f.sig);
            if !reported.insert(sig.clone()) {
                ev.class("further-failing-cases");
                continue;
            }
            let small = if i < trees.len() {
                let want = f.sig.clone();
                shrink(
                    &mut trees[i],
                    |cc| match worker::run_single(&render(cc)) {
                        Outcome::Ok { output, .. } => outscan::scan(&output).map(|s| judge(&s).iter().any(|x| x.sig == want)).unwrap_or(false),
                        _ => false,
                    },
                    tier.pick(60, 150),
                )
            } else {
                c.clone()
            };
            route_failure(&mut ev, &findings, "namespace-assignment", &sig, json!({"case": small, "files": render(&small), "detail": f.detail}));
        }
    }
    ev.extra.insert("rejected_by_generator".into(), json!(rejected));
    if rejected * 5 > cases.len() {
        ev.inconclusive = Some(format!("{rejected} of {} inputs were rejected", cases.len()));
    }
    ev.finish()
}

pub fn replay(case: &serde_json::Value) -> i32 {
    let c: NCase = serde_json::from_value(case["case"].clone()).expect("C10 case");
    let out = worker::run_single(&render(&c));
    let fails = match &out {
        Outcome::Ok { output, .. } => outscan::scan(output).map(|s| judge(&s)).unwrap_or_default(),
        _ => vec![],
    };
    for f in &fails {
        println!("{}: {}", f.sig, f.detail);
    }
    if fails.is_empty() {
        0
    } else {
        println!("VIOLATION property=C10 replay=(this file)");
        1
    }
}
