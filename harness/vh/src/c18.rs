//! C18 — client futures are Send and usable from a multi-threaded runtime.
use crate::common::Tier;
use crate::soap::{self, Aspect, Cfg};

pub fn run(tier: Tier) -> i32 {
    soap::run_with(
        tier,
        &Cfg {
            id: "C18",
            aspect: Aspect::Send,
            rule: "every generated client of the C05 WSDL profile (all operation shapes: headers, one-way, with and without soapAction, members of every kind incl. restricted simple types). Oracle: rustc type-checks, next to the emitted file, a module that passes the future of every service method and of every free-standing operation function to fn assert_send<T: Send>(T), asserts Send + Sync for every request and response envelope type, and spawns one call per operation on a multi-thread tokio runtime (never polled against a network). Diagnostics located in the assertion module are C18 failures; diagnostics inside the emitted file are reported as uncompilable output. Non-trivial: operation with headers or without output, or >= 2 operations; distinct by file set.",
            n_quick: 120,
            n_thorough: 2000,
        },
    )
}

pub fn replay(case: &serde_json::Value) -> i32 {
    soap::replay("C18", Aspect::Send, case)
}
