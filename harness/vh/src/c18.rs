//! C18 — client futures are Send and usable from a multi-threaded runtime.
use crate::common::*;
use crate::rustc::Externs;
use crate::soap::{self, Aspect, Cfg};
use serde_json::json;

/// Appended to the helper source (`helpers` is private to the file it sits in): a request envelope
/// that is Send but not Sync (a Cell inside), handed to both helper functions; the futures must be
/// Send, because the statement says "whenever the request envelope is".
const SEND_ONLY_ENVELOPE_PROBE: &str = r#"
// ---- appended by the C18 check ----
pub struct Counted<E> {
    pub envelope: E,
    pub serialized: std::cell::Cell<u32>,
}
impl<E: yaserde::YaSerialize> yaserde::YaSerialize for Counted<E> {
    fn serialize<W: std::io::Write>(&self, writer: &mut yaserde::ser::Serializer<W>) -> Result<(), String> {
        self.serialized.set(self.serialized.get() + 1);
        self.envelope.serialize(writer)
    }
    fn serialize_attributes(
        &self,
        attributes: Vec<xml::attribute::OwnedAttribute>,
        namespace: xml::namespace::Namespace,
    ) -> Result<(Vec<xml::attribute::OwnedAttribute>, xml::namespace::Namespace), String> {
        self.envelope.serialize_attributes(attributes, namespace)
    }
}
impl<E: restrictions::CheckRestrictions> restrictions::CheckRestrictions for Counted<E> {
    fn check_restrictions(&self, restrictions: Option<std::rc::Rc<restrictions::Restrictions>>) -> error::SoapResult<()> {
        self.envelope.check_restrictions(restrictions)
    }
}
#[derive(Debug, Default, yaserde_derive::YaSerialize, yaserde_derive::YaDeserialize)]
pub struct C18Env {
    #[yaserde(text = true)]
    pub v: String,
}
impl restrictions::CheckRestrictions for C18Env {
    fn check_restrictions(&self, _: Option<std::rc::Rc<restrictions::Restrictions>>) -> error::SoapResult<()> {
        Ok(())
    }
}
fn c18_counted() -> Counted<C18Env> {
    Counted { envelope: C18Env::default(), serialized: Default::default() }
}
fn c18_assert_send<T: Send>(_: T) {}
fn c18_send_only<T: Send>() {}
pub fn c18_probe(client: &'static reqwest::Client) {
    c18_send_only::<Counted<C18Env>>();
    c18_assert_send(helpers::send_soap_request_using_client::<_, C18Env, &str, &str>(client, "http://127.0.0.1:9/x", None, c18_counted()));
    c18_assert_send(helpers::send_soap_request::<_, C18Env, String, String>("http://127.0.0.1:9/x", None, c18_counted()));
    c18_assert_send(helpers::send_soap_request_using_client::<_, helpers::NoResponse, &str, &str>(client, "http://127.0.0.1:9/x", None, c18_counted()));
}
"#;

/// The helper functions with a Send-only envelope: one compile, the verdict is rustc's.
fn helper_probe(ev: &mut Evidence, findings: &Findings) {
    let Ok(ex) = Externs::discover() else { return };
    let Ok(helper) = std::fs::read_to_string("/repo/zeep-lib/src/model/helpers_content.rs") else {
        ev.assume("the helper source could not be read: the Send-only envelope probe was skipped");
        return;
    };
    let scratch = scratch_dir("c18h");
    // first the helper alone: if that does not compile the probe says nothing
    let plain = crate::pipeline::compile_output(&ex, &scratch, &helper, "");
    let c = crate::pipeline::compile_output(&ex, &scratch, &format!("{helper}\n{SEND_ONLY_ENVELOPE_PROBE}"), "");
    ev.case("helper|send-only-envelope", true);
    ev.class("helper-probe.send-only-envelope");
    if plain.ok && !c.ok && !c.timed_out {
        let d = c.errors.first();
        let sig = format!("C18 helper:future-not-send-for-a-send-only-envelope:{}", d.map(|d| d.normalised()).unwrap_or_default());
        route_failure(ev, findings, "not-send", &sig, json!({"helper_probe": true, "detail": d.map(|d| d.message.clone()).unwrap_or_default()}));
    } else if !plain.ok {
        ev.class("helper-probe.helper-source-does-not-compile-alone");
    }
    let _ = std::fs::remove_dir_all(&scratch);
}

pub fn run(tier: Tier) -> i32 {
    let findings = Findings::load();
    findings.print_fixed("C18");
    let cfg = Cfg {
        id: "C18",
        aspect: Aspect::Send,
        rule: "every generated client of the C05 WSDL profile (all operation shapes: headers, one-way, with and without soapAction, members of every kind incl. restricted simple types). Oracle: rustc type-checks, next to the emitted file, a module that passes the future of every service method and of every free-standing operation function to fn assert_send<T: Send>(T), asserts Send + Sync for every request and response envelope type, and spawns one call per operation on a multi-thread tokio runtime (never polled against a network). Diagnostics located in the assertion module are C18 failures; diagnostics inside the emitted file are reported as uncompilable output. In addition the helper source is compiled once with a hand-written request envelope that is Send but not Sync (a Cell inside): the futures of both helper functions must still be Send. Non-trivial: operation with headers or without output, or >= 2 operations; distinct by file set.",
        n_quick: 120,
        n_thorough: 2000,
    };
    let mut ev = Evidence::new(cfg.id, tier, "exploration", cfg.rule);
    helper_probe(&mut ev, &findings);
    soap::run_into(&mut ev, &findings, tier, &cfg);
    ev.finish()
}

pub fn replay(case: &serde_json::Value) -> i32 {
    if case["helper_probe"].as_bool() == Some(true) {
        let findings = Findings { findings: vec![] };
        let mut ev = Evidence::new("C18", Tier::Quick, "exploration", "replay of the helper probe");
        helper_probe(&mut ev, &findings);
        return ev.finish();
    }
    soap::replay("C18", Aspect::Send, case)
}
