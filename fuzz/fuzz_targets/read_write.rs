//! C13 thorough: coverage-guided search for inputs on which zeep-lib panics, overflows or hangs.
//!
//! Input format (text, so that libFuzzer's mutators and the XML dictionary work on it): files
//! separated by a line `=====FILE=====`; the first one is the start file `f0.wsdl`, the others are
//! its siblings `f1.xsd`, `f2.xsd`, ... (schemaLocation values in the seeds use these names).
//!
//! Oracle: reading returns a document or an error, writing a returned document returns success or
//! an error. Anything else (panic, abort, libFuzzer -timeout) is a crash artifact, which `vh`
//! re-runs in its isolated worker to classify it. The open finding F16 (documents nested thousands of levels deep overflow the XML
//! parser's recursion) is excluded by construction: such inputs are skipped.
#![no_main]
use libfuzzer_sys::fuzz_target;
use zeep_lib::reader::{Files, FilesToRead, WriteXml, XmlReader};

const SEPARATOR: &str = "\n=====FILE=====\n";

/// upper bound of the element nesting depth (cheap scan, over-approximates)
fn nesting_depth(xml: &str) -> usize {
    let b = xml.as_bytes();
    let (mut depth, mut max) = (0usize, 0usize);
    let mut i = 0;
    while i < b.len() {
        if b[i] == b'<' {
            match b.get(i + 1) {
                Some(b'/') => depth = depth.saturating_sub(1),
                Some(b'!') | Some(b'?') => {}
                _ => {
                    depth += 1;
                    max = max.max(depth);
                }
            }
        } else if b[i] == b'/' && b.get(i + 1) == Some(&b'>') {
            depth = depth.saturating_sub(1);
        }
        i += 1;
    }
    max
}

fn generate(files: &FilesToRead) -> Result<Vec<u8>, String> {
    let doc = XmlReader::read_xml(files).map_err(|e| e.to_string())?;
    let mut out = Vec::new();
    doc.write_xml(&mut out).map_err(|e| e.to_string())?;
    Ok(out)
}

fuzz_target!(|data: &[u8]| {
    let Ok(text) = std::str::from_utf8(data) else { return };
    if nesting_depth(text) > 400 {
        return;
    }
    let mut parts = text.split(SEPARATOR);
    let start = parts.next().unwrap_or("");
    let mut files = Files::new("f0.wsdl", start);
    for (i, p) in parts.enumerate().take(6) {
        files.add(format!("f{}.xsd", i + 1), p);
    }
    let to_read = FilesToRead::new("f0.wsdl", files);
    let _ = generate(&to_read);
});
